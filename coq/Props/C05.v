(* C05  One durable vote per term; the term never goes backwards.
   Statements only; proofs live in Node/VoteFacts.v.
   In the model (st_term, st_voted) IS the content of the term file: setTerm and
   setVotedFor persist before they update memory (value.set = rename + dir sync,
   assumed atomic), and restart keeps both. *)
From Coq Require Import List NArith ZArith.
From Verif Require Import Base.Bytes Codec.Messages Node.Types Node.Handlers Node.Leader Node.Snap Node.Step Node.Run Node.VoteFacts.
Import ListNotations.
Open Scope N_scope.

(* whenever a vote reply says granted, that vote for the requested term is the persisted one *)
Theorem grant_is_durable :
  forall s q s', on_vote_request s q = Done (success, s') ->
    st_term s' = vq_term q /\ st_voted s' = vq_src q.
Proof. exact VoteFacts.grant_is_durable. Qed.
Print Assumptions grant_is_durable.

(* ... also after the role change that may follow the handler inside the same step *)
Theorem granted_reply_means_persisted :
  forall opt s q o s', model_event opt s (EVoteReq q) = Done (o, s') -> ob_result o = success ->
    st_term s' = vq_term q /\ st_voted s' = vq_src q /\ ob_respterm o = vq_term q.
Proof. exact VoteFacts.granted_reply_means_persisted. Qed.
Print Assumptions granted_reply_means_persisted.

(* every step of every kind (requests, time-outs, elections, leader events, tasks, snapshots,
   restarts after a crash): the term does not decrease, and within a term a vote, once cast, stays *)
Theorem step_term_vote_monotone :
  forall s s', nstep s s' ->
    st_term s <= st_term s' /\ (st_term s' = st_term s -> st_voted s = 0 \/ st_voted s' = st_voted s).
Proof. exact VoteFacts.step_term_vote_monotone. Qed.
Print Assumptions step_term_vote_monotone.

(* over any history of one node, including restarts: at most one candidate per term *)
Theorem one_vote_per_term :
  forall l, npath l -> forall i j sa sb,
    nth_error l i = Some sa -> nth_error l j = Some sb ->
    st_term sa = st_term sb -> st_voted sa <> 0 -> st_voted sb <> 0 -> st_voted sa = st_voted sb.
Proof. exact VoteFacts.one_vote_per_term. Qed.
Print Assumptions one_vote_per_term.

Theorem term_monotone :
  forall l, npath l -> forall i j sa sb, (i <= j)%nat ->
    nth_error l i = Some sa -> nth_error l j = Some sb -> st_term sa <= st_term sb.
Proof. exact VoteFacts.term_monotone. Qed.
Print Assumptions term_monotone.

(* the term a reply reports lies between the terms before and after the step: never lower than
   one reported before *)
Theorem reported_term_between :
  forall opt s ev o s', model_event opt s ev = Done (o, s') -> ob_result o <> 0 ->
    st_term s <= ob_respterm o /\ ob_respterm o <= st_term s'.
Proof. exact VoteFacts.reported_term_between. Qed.
Print Assumptions reported_term_between.

(* a candidate's own vote is persisted by startElection before any request leaves *)
Theorem self_vote_persisted :
  forall s s', start_election s = Done s' -> st_term s' = st_term s + 1 /\ st_voted s' = st_nid s.
Proof. exact VoteFacts.self_vote_persisted. Qed.
Print Assumptions self_vote_persisted.

(* the handler as the code had it before the repair (known_findings.json, D1) violates grant_is_durable *)
Theorem grant_is_durable_before_fix_refuted :
  exists s q s', on_vote_request_before_fix s q = Done (success, s') /\ st_term s' <> vq_term q.
Proof. exact VoteFacts.grant_is_durable_before_fix_refuted. Qed.
Print Assumptions grant_is_durable_before_fix_refuted.

(* non-vacuity: a follower that knows a leader still grants a transfer-flagged request *)
Example grant_example :
  exists s q s', on_vote_request s q = Done (success, s') /\ st_leader s <> 0 /\ st_term s < vq_term q.
Proof. exact VoteFacts.grant_example. Qed.
