(* C07 (abstract protocol)  A client update takes effect at most once, at one position.
   Statements only.  Model: Abs/CfgRaft.v (membership changes, durable prefix, crash/restart,
   snapshot installation, truncated requests); runs of actions: Abs/CfgRun.v
   ([run V0 true acts init = Some s]: every action of [acts] passed its guard, s is the state
   reached).  [client_count x acts] is the number of actions [AClient _ x] in [acts]: the number
   of times a leader accepted the client payload x.  PData 0 is the no-op every leader appends
   when elected, hence x <> 0.  Whatever else happened in the run (re-sent, duplicated, delayed,
   truncated requests, elections, crashes, reconfigurations, installations), a payload accepted
   at most once occurs at most once in every log, and at the same index with the same term in
   all logs that hold it; a payload never accepted occurs nowhere.  Proofs: Abs/CfgClient.v. *)
From Coq Require Import List NArith Lia.
From Verif Require Import Abs.CfgBase Abs.CfgRaft Abs.CfgRun Abs.CfgClient.
Import ListNotations.
Open Scope N_scope.

Theorem cfg_client_entry_at_most_once : forall V0, NoDup V0 -> forall acts s x,
  run V0 true acts init = Some s -> x <> 0 -> (client_count x acts <= 1)%nat ->
  forall n i j t t',
    nth_error (log (st s n)) i = Some (t, PData x) ->
    nth_error (log (st s n)) j = Some (t', PData x) -> i = j /\ t = t'.
Proof. exact client_entry_at_most_once. Qed.
Print Assumptions cfg_client_entry_at_most_once.

Theorem cfg_client_entry_one_position : forall V0, NoDup V0 -> forall acts s x,
  run V0 true acts init = Some s -> x <> 0 -> (client_count x acts <= 1)%nat ->
  forall n m i j t t',
    nth_error (log (st s n)) i = Some (t, PData x) ->
    nth_error (log (st s m)) j = Some (t', PData x) -> i = j /\ t = t'.
Proof. exact client_entry_one_position. Qed.
Print Assumptions cfg_client_entry_one_position.

Theorem cfg_client_entry_never_submitted : forall V0, NoDup V0 -> forall acts s x,
  run V0 true acts init = Some s -> x <> 0 -> client_count x acts = 0%nat ->
  forall n i t, nth_error (log (st s n)) i <> Some (t, PData x).
Proof. exact client_entry_never_submitted. Qed.
Print Assumptions cfg_client_entry_never_submitted.
