(* C17  Availability and leader stability: the stability half is a safety statement and is proved
   in full; the availability half is PARTIAL: the mechanisms that make progress are proved one by
   one, real time and randomised time-outs ("within a bounded number of election time-outs") are
   outside any executable model (time-outs are events).  Proofs in Node/LiveFacts.v *)
From Coq Require Import List NArith ZArith Bool.
From Verif Require Import Base.Bytes Codec.Messages Node.Types Node.Handlers Node.Leader Node.Snap Node.Step Node.Run Node.LiveFacts.
Import ListNotations.
Open Scope N_scope.

(* while a follower knows a leader, a vote request without the transfer flag from any other node
   neither wins its vote nor raises its term: the node is left exactly as it was *)
Theorem leader_stickiness :
  forall s q, st_leader s <> 0 -> vq_transfer q = false -> vq_src q <> st_leader s ->
    on_vote_request s q = Done (leaderKnown, s).
Proof. exact LiveFacts.leader_stickiness. Qed.
Print Assumptions leader_stickiness.

(* ... and the whole step (timer rule, no role change) leaves term, vote, role, leader unchanged.
   REPAIRED: the hypothesis [st_closed s = false \/ st_role s = Follower] was added.  A node that is
   already closed and is candidate or leader runs the deferred release of its role in every step of
   the model (LiveFacts.Refuted.stickiness_step_unrepaired: the candidate's transfer flag is cleared);
   the implementation's loop has returned by then, so such a step does not exist there. *)
Theorem leader_stickiness_step :
  forall opt s q o s', st_leader s <> 0 -> vq_transfer q = false -> vq_src q <> st_leader s ->
    st_closed s = false \/ st_role s = Follower ->
    model_event opt s (EVoteReq q) = Done (o, s') -> s' = s /\ ob_result o = leaderKnown.
Proof. exact LiveFacts.leader_stickiness_step. Qed.
Print Assumptions leader_stickiness_step.

(* a voter follower that times out becomes candidate of the next term and votes for itself.
   REPAIRED: the hypothesis [st_closed s = false] was added: on a closed node the role changes but
   the loop returns before startElection runs (LiveFacts.Refuted.timeout_unrepaired). *)
Theorem timeout_starts_election :
  forall opt s o s', st_role s = Follower -> can_start_election s = true -> st_closed s = false ->
    model_event opt s ETimeout = Done (o, s') ->
    st_role s' = Candidate /\ st_term s' = st_term s + 1 /\ st_voted s' = st_nid s /\
    st_votesneeded s' = Z.of_N (quorum (st_latest s)).
Proof. exact LiveFacts.timeout_starts_election. Qed.
Print Assumptions timeout_starts_election.

(* a candidate whose log is at least as up to date as the voter's gets the vote of every voter that
   has not voted in that term and is allowed to listen (no known leader, or transfer flag) *)
Theorem uptodate_candidate_gets_vote :
  forall s q, (vq_transfer q = true \/ st_leader s = 0 \/ vq_src q = st_leader s) ->
    (st_term s < vq_term q \/ (st_term s = vq_term q /\ (st_voted s = 0 \/ st_voted s = vq_src q))) ->
    log_more_uptodate s q = false ->
    exists s', on_vote_request s q = Done (success, s') /\ st_term s' = vq_term q /\ st_voted s' = vq_src q.
Proof. exact LiveFacts.uptodate_candidate_gets_vote. Qed.
Print Assumptions uptodate_candidate_gets_vote.

(* votes counted down from the quorum make the candidate leader exactly at zero *)
Theorem quorum_of_grants_wins :
  forall s, st_votesneeded s = 1%Z -> on_vote_result s (st_term s) success =
    Done (set_leader (set_role (set_cnd s 0%Z (st_cndtransfer s)) Leader) (st_nid s)).
Proof. exact LiveFacts.quorum_of_grants_wins. Qed.
Print Assumptions quorum_of_grants_wins.

(* replication back-off: every rejection strictly lowers nextIndex and never below matchIndex+1,
   so the probe phase ends after at most nextIndex - matchIndex - 1 rejections *)
Theorem next_index_converges :
  forall s id result rterm rlast reqlast s' out l rp,
    st_ldr s = Some l -> find_repl id (ld_repls l) = Some rp ->
    (result = prevEntryNotFound \/ result = prevTermMismatch) -> rp_gmatch rp <= rlast -> 1 <= rp_next rp ->
    flr_resp s id result rterm rlast reqlast = Done (s', out) ->
    exists l' rp', st_ldr s' = Some l' /\ find_repl id (ld_repls l') = Some rp' /\
      rp_next rp' < rp_next rp /\ rp_gmatch rp' = rp_gmatch rp /\ rp_next rp' = N.min (rp_next rp - 1) (rlast + 1).
Proof. exact LiveFacts.next_index_converges. Qed.
Print Assumptions next_index_converges.

(* a success acknowledgement raises the match index to what was sent *)
Theorem success_raises_match :
  forall s id rterm rlast reqlast s' out l rp,
    st_ldr s = Some l -> find_repl id (ld_repls l) = Some rp -> rp_gmatch rp < reqlast ->
    flr_resp s id success rterm rlast reqlast = Done (s', out) ->
    In (MReplUpdate id 1 reqlast) (lo_msgs out) /\
    exists l' rp', st_ldr s' = Some l' /\ find_repl id (ld_repls l') = Some rp' /\ rp_gmatch rp' = reqlast.
Proof. exact LiveFacts.success_raises_match. Qed.
Print Assumptions success_raises_match.

(* a leader that is the only voter commits what it appends without waiting for anybody.
   REPAIRED: the last hypothesis was added (no configuration action can fire during the step: the
   latest configuration is stable, or it is committed and the leader has already committed in its
   term).  Without it the commit can trigger checkConfigActions, which appends a configuration entry
   of its own after the client's entries; if that entry demotes the leader it stays uncommitted
   (LiveFacts.Refuted.single_voter_unrepaired: commit 2, last index 3 after one update at index 2). *)
Theorem single_voter_commits_alone :
  forall opt fuel s datas s' out l,
    st_ldr s = Some l -> ld_tr_active l = false -> ld_voter l = true -> ld_numvoters l = 1 -> datas <> [] ->
    ld_start l <= st_lastidx s + 1 -> st_commit s <= st_lastidx s ->
    is_stable (st_latest s) = true \/ (configs_committed s = true /\ ld_start l <= st_commit s) ->
    store_entry opt fuel s (map (fun d => mkNewReq entryUpdate d 0) datas) = Done (s', out) ->
    st_commit s' = st_lastidx s' /\ st_lastidx s' = st_lastidx s + N.of_nat (length datas).
Proof. exact LiveFacts.single_voter_commits_alone. Qed.
Print Assumptions single_voter_commits_alone.

(* a leader that cannot reach a majority of the voters steps down when asked to check with no wait *)
Theorem quorum_loss_steps_down :
  forall opt s l, st_ldr s = Some l ->
    (forall n, In n (c_nodes (st_latest s)) -> n_voter n = true -> n_id n <> st_nid s ->
       exists rp, find_repl (n_id n) (ld_repls l) = Some rp /\ rp_nocontact rp = true) ->
    3 <= num_voters (st_latest s) -> NoDup (map n_id (c_nodes (st_latest s))) ->
    exists s', check_quorum opt s false = Done s' /\ st_role s' = Follower /\ st_leader s' = 0.
Proof. exact LiveFacts.quorum_loss_steps_down. Qed.
Print Assumptions quorum_loss_steps_down.
