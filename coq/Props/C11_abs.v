(* C11 (abstract protocol)  Non-voters hold no authority.  Statements only.
   Model: Abs/CfgRaft.v.  [elected s] records (term, node, log) where the log is the one the
   candidate campaigned and won with, i.e. its log BEFORE the no-op of the new term;
   cfg_of V0 L is the latest configuration in L (V0 if none).  [grants s] records every vote
   ever granted (term, voter, candidate); votes are durable (cur and vote survive SCrash).
   Proofs: Abs/CfgVoter.v. *)
From Coq Require Import List NArith Lia.
From Verif Require Import Abs.Quorum Abs.CfgQuorum Abs.CfgBase Abs.CfgRaft Abs.CfgVoter.
Import ListNotations.
Open Scope N_scope.

(* a node becomes leader only as a voter of the latest configuration of its own log *)
Theorem cfg_leader_was_voter : forall V0, NoDup V0 -> forall s t n L,
  Reachable V0 s -> In (t, n, L) (elected s) -> In n (cfg_of V0 L).
Proof. exact leader_was_voter. Qed.
Print Assumptions cfg_leader_was_voter.

(* ... elected by a majority of the voters of that configuration (majority D Q includes
   incl Q D: votes of nodes outside the configuration never count) *)
Theorem cfg_leader_elected_by_voters : forall V0, NoDup V0 -> forall s t n L,
  Reachable V0 s -> In (t, n, L) (elected s) ->
  exists Q, majority (cfg_of V0 L) Q /\ forall v, In v Q -> In (t, v, n) (grants s).
Proof. exact leader_elected_by_voters. Qed.
Print Assumptions cfg_leader_elected_by_voters.

(* one vote per voter and term, across crashes *)
Theorem cfg_one_vote_per_term : forall V0, NoDup V0 -> forall s t v c c',
  Reachable V0 s -> In (t, v, c) (grants s) -> In (t, v, c') (grants s) -> c = c'.
Proof. exact one_vote_per_term. Qed.
Print Assumptions cfg_one_vote_per_term.

(* a node that campaigns is a voter of its latest configuration *)
Theorem cfg_candidate_is_voter : forall V0, NoDup V0 -> forall s n,
  Reachable V0 s -> role (st s n) = Candidate -> In n (cfg V0 s n).
Proof. exact candidate_is_voter. Qed.
Print Assumptions cfg_candidate_is_voter.
