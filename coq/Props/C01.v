(* C01  Election safety: at most one leader per term.
   Statements only; the model (step relation, Reachable) and the proofs live in
   Abs/Votes.v, the quorum-intersection lemma in Abs/Quorum.v.

   The model covers every cluster size, every interleaving, crash/restart
   (term and vote persisted), loss and arbitrary delay of vote replies,
   step-downs and repeated elections; nothing is bounded. *)
From Coq Require Import List NArith Lia.
From Verif Require Import Abs.Quorum Abs.Votes.
Import ListNotations.
Open Scope N_scope.

(* two majorities of the same voter list share a voter *)
Theorem two_majorities_meet :
  forall V Q1 Q2, majority V Q1 -> majority V Q2 -> exists v, In v Q1 /\ In v Q2.
Proof. exact Quorum.two_majorities_meet. Qed.
Print Assumptions two_majorities_meet.

(* at most one node is ever elected in a term *)
Theorem election_safety :
  forall V s, NoDup V -> Reachable V s ->
    forall t n1 n2, In (t, n1) (elected s) -> In (t, n2) (elected s) -> n1 = n2.
Proof. exact Votes.election_safety. Qed.
Print Assumptions election_safety.

(* whoever is in role Leader won the election of its current term *)
Theorem leader_was_elected :
  forall V s n, NoDup V -> Reachable V s ->
    role (st s n) = Leader -> In (cur (st s n), n) (elected s).
Proof. exact Votes.leader_was_elected. Qed.
Print Assumptions leader_was_elected.

(* hence two nodes that are Leader in the same term are one node *)
Theorem one_leader_per_term :
  forall V s n1 n2, Reachable V s ->
    role (st s n1) = Leader -> role (st s n2) = Leader ->
    cur (st s n1) = cur (st s n2) -> n1 = n2.
Proof. exact Votes.one_leader_per_term. Qed.
Print Assumptions one_leader_per_term.

(* a voter votes for at most one candidate per term, across restarts *)
Theorem one_vote_per_term :
  forall V s t v c1 c2, Reachable V s ->
    In (t, v, c1) (votes s) -> In (t, v, c2) (votes s) -> c1 = c2.
Proof. exact Votes.one_vote_per_term. Qed.
Print Assumptions one_vote_per_term.

(* every election was won with the recorded votes of a majority of V *)
Theorem elected_has_quorum :
  forall V s t n, Reachable V s -> In (t, n) (elected s) ->
    exists Q, NoDup Q /\ incl Q V /\ (2 * length Q > length V)%nat /\
              forall v, In v Q -> In (t, v, n) (votes s).
Proof. exact Votes.elected_has_quorum. Qed.
Print Assumptions elected_has_quorum.

(* ---- non-vacuity: a concrete run of a 3-voter cluster ----
   node 3 times out (term 2) but its self-vote reply is lost and it crashes;
   node 1 times out twice (terms 2, 3), node 2 and node 3 see/grant term 3,
   node 1 counts itself and node 2 and wins term 3; later node 2 wins term 4
   while node 1 has not yet noticed: two nodes in role Leader, different terms. *)
Definition V3 : list N := [1; 2; 3].

Definition run_a : state :=
  do_win 1 (do_count 1 2 (do_count 1 1 (do_grant 2 3 1 (do_start 1 (do_start 1
  (do_follow 3 (do_lose (2, 3, 3) (do_start 3 init)))))))).

Definition run_b : state :=
  do_win 2 (do_count 2 3 (do_count 2 2 (do_grant 3 4 2 (do_start 2 run_a)))).

Ltac chk := vm_compute; repeat split; try lia; try discriminate; intuition (try lia; try discriminate).

Example reachable_run_a : Reachable V3 run_a.
Proof.
  unfold run_a.
  eapply R_step; [| apply SWin; chk ].
  eapply R_step; [| apply SCount; chk ].
  eapply R_step; [| apply SCount; chk ].
  eapply R_step; [| apply SGrant; chk ].
  eapply R_step; [| apply SStart; chk ].
  eapply R_step; [| apply SStart; chk ].
  eapply R_step; [| apply SRestart ].
  eapply R_step; [| apply SLose ].
  eapply R_step; [| apply SStart; chk ].
  apply R_init.
Qed.

Example reachable_run_b : Reachable V3 run_b.
Proof.
  unfold run_b.
  eapply R_step; [| apply SWin; chk ].
  eapply R_step; [| apply SCount; chk ].
  eapply R_step; [| apply SCount; chk ].
  eapply R_step; [| apply SGrant; chk ].
  eapply R_step; [| apply SStart; chk ].
  exact reachable_run_a.
Qed.

(* the hypotheses of all theorems above are satisfiable by non-trivial states *)
Example hypotheses_satisfiable :
  NoDup V3 /\ Reachable V3 run_a /\ Reachable V3 run_b /\
  role (st run_a 1) = Leader /\ cur (st run_a 1) = 3 /\
  elected run_a = [(3, 1)] /\
  In (3, 2, 1) (votes run_a) /\ In (2, 3, 3) (votes run_a) /\
  role (st run_b 1) = Leader /\ role (st run_b 2) = Leader /\
  cur (st run_b 1) = 3 /\ cur (st run_b 2) = 4 /\
  elected run_b = [(4, 2); (3, 1)].
Proof.
  split; [repeat constructor; simpl; intuition discriminate|].
  split; [exact reachable_run_a|]. split; [exact reachable_run_b|].
  vm_compute. repeat split; auto.
Qed.
Print Assumptions hypotheses_satisfiable.
