(* AbsTie  The tie between the abstract protocol of Abs/Raft.v (about which C01-C04 and C06 are
   proved) and the code: every whole-cluster history the harness observes on real nodes is handed to
   the executable checker [Exec.run]; these theorems say what its acceptance means.  They quantify
   over every history (any length, any cluster size, any contents): acceptance is never assumed of a
   particular one.  Statements only; proofs in Abs/Exec.v, Abs/ExecThms.v.

   The abstract protocol has static membership; it includes flushing, crash/restart, and snapshot
   installation over logical logs (compaction is invisible), so histories with snapshots are covered.
   Its network may lose, duplicate, reorder and TRUNCATE append requests (a follower that consumed k
   whole entries of a request before the connection broke: event ARecvCut).

   A history is a list of (event, observed projections).  The projection of a node is
   (term, vote, role, log, durable prefix length, commit index). *)
From Coq Require Import List NArith Lia.
From Verif Require Import Abs.Quorum Abs.RaftBase Abs.Raft Abs.Exec Abs.ExecThms.
Import ListNotations.
Open Scope N_scope.

(* an accepted history ends in a reachable state of the abstract protocol ... *)
Theorem accepted_history_is_a_run : forall V tr s, run V tr = ROk s -> Reachable V s.
Proof. exact ExecThms.accepted_history_is_a_run. Qed.
Print Assumptions accepted_history_is_a_run.

(* ... whose projection is what was observed last *)
Theorem accepted_history_observed : forall V tr e os s,
  run V (tr ++ [(e, os)]) = ROk s -> Reachable V s /\ check_obs s os = true.
Proof. exact ExecThms.accepted_history_observed. Qed.
Print Assumptions accepted_history_observed.

(* acceptance of a history is acceptance of each of its prefixes: the statements below hold at
   every instant of an accepted history *)
Theorem accepted_prefix : forall V tr1 tr2 s, run V (tr1 ++ tr2) = ROk s -> exists s1, run V tr1 = ROk s1.
Proof. exact ExecThms.accepted_prefix. Qed.
Print Assumptions accepted_prefix.

(* each single event is explained by steps of the abstract protocol *)
Theorem explain_sound : forall V s e os s', explain V s e os = Ok s' -> steps V s s' /\ check_obs s' os = true.
Proof. exact Exec.explain_sound. Qed.
Print Assumptions explain_sound.

(* C01 on observations *)
Theorem observed_one_leader_per_term : forall V tr e os s, run V (tr ++ [(e, os)]) = ROk s ->
  forall n1 o1 n2 o2, In (n1, o1) os -> In (n2, o2) os ->
    o_role o1 = Leader -> o_role o2 = Leader -> o_cur o1 = o_cur o2 -> n1 = n2.
Proof. exact ExecThms.observed_one_leader_per_term. Qed.
Print Assumptions observed_one_leader_per_term.

(* C02 on observations *)
Theorem observed_leader_holds_committed : forall V tr e os s, run V (tr ++ [(e, os)]) = ROk s ->
  forall n o l ol i x, In (n, o) os -> In (l, ol) os -> o_role ol = Leader -> o_cur o <= o_cur ol ->
    (1 <= i <= o_commit o)%nat -> nth_error (o_log o) (i - 1) = Some x ->
    nth_error (o_log ol) (i - 1) = Some x.
Proof. exact ExecThms.observed_leader_holds_committed. Qed.
Print Assumptions observed_leader_holds_committed.

(* C03 on observations *)
Theorem observed_state_machine_safety : forall V tr e os s, run V (tr ++ [(e, os)]) = ROk s ->
  forall n1 o1 n2 o2, In (n1, o1) os -> In (n2, o2) os ->
    (exists tail, firstn (o_commit o2) (o_log o2) = firstn (o_commit o1) (o_log o1) ++ tail) \/
    (exists tail, firstn (o_commit o1) (o_log o1) = firstn (o_commit o2) (o_log o2) ++ tail).
Proof. exact ExecThms.observed_state_machine_safety. Qed.
Print Assumptions observed_state_machine_safety.

(* C04 on observations *)
Theorem observed_log_matching : forall V tr e os s, run V (tr ++ [(e, os)]) = ROk s ->
  forall n1 o1 n2 o2 j e1 e2, In (n1, o1) os -> In (n2, o2) os ->
    nth_error (o_log o1) j = Some e1 -> nth_error (o_log o2) j = Some e2 -> eterm e1 = eterm e2 ->
    e1 = e2 /\ firstn (S j) (o_log o1) = firstn (S j) (o_log o2).
Proof. exact ExecThms.observed_log_matching. Qed.
Print Assumptions observed_log_matching.

(* C06 on observations *)
Theorem observed_commit_durable : forall V tr e os s, run V (tr ++ [(e, os)]) = ROk s ->
  forall n o i x, In (n, o) os -> (1 <= i <= o_commit o)%nat -> nth_error (o_log o) (i - 1) = Some x ->
    exists Q, majority V Q /\ forall v, In v Q ->
      (i <= flushed (st s v))%nat /\ nth_error (log (st s v)) (i - 1) = Some x.
Proof. exact ExecThms.observed_commit_durable. Qed.
Print Assumptions observed_commit_durable.

(* C05 on observations: between two observations of a node in an accepted history - crashes and
   restarts in between included - its term never decreases and, within one term, a vote once cast stays *)
Theorem observed_term_vote_monotone : forall V tr1 e1 os1 tr2 e2 os2 s2 n o1 o2,
  run V ((tr1 ++ [(e1, os1)]) ++ tr2 ++ [(e2, os2)]) = ROk s2 ->
  In (n, o1) os1 -> In (n, o2) os2 ->
  o_cur o1 <= o_cur o2 /\ (o_cur o2 = o_cur o1 -> o_vote o1 <> 0 -> o_vote o2 = o_vote o1).
Proof. exact ExecThms.observed_term_vote_monotone. Qed.
Print Assumptions observed_term_vote_monotone.

(* non-vacuity: the beginning of a history observed on three real nodes (election of node 1 in
   term 2 with the votes of 1 and 3 while node 2 campaigns too, first heartbeat, node 1 crashes) *)
Definition sample_history : list (aevent * list (N * obs)) := [
 (AStart 1, [(1,(mkO 2 1 Candidate [] 0%nat 0%nat));(2,(mkO 1 0 Follower [] 0%nat 0%nat));(3,(mkO 1 0 Follower [] 0%nat 0%nat))]);
 (AVoteRes 1 1 true, [(1,(mkO 2 1 Candidate [] 0%nat 0%nat))]);
 (AStart 2, [(2,(mkO 2 2 Candidate [] 0%nat 0%nat))]);
 (AVoteRes 2 2 true, [(2,(mkO 2 2 Candidate [] 0%nat 0%nat))]);
 (AVoteReq 3 2 1 true, [(3,(mkO 2 1 Follower [] 0%nat 0%nat))]);
 (AVoteRes 1 3 true, [(1,(mkO 2 1 Leader [(2,1)] 0%nat 0%nat))]);
 (AVoteReq 2 2 1 false, [(2,(mkO 2 2 Candidate [] 0%nat 0%nat))]);
 (ASend 1 (mkReq 2 1 0%nat 0 [] 0%nat), [(1,(mkO 2 1 Leader [(2,1)] 0%nat 0%nat))]);
 (ARecv 3 (mkReq 2 1 0%nat 0 [] 0%nat), [(3,(mkO 2 1 Follower [] 0%nat 0%nat))]);
 (AAck 1 3 0%nat, [(1,(mkO 2 1 Leader [(2,1)] 0%nat 0%nat))]);
 (ACrash 1 0%nat, [(1,(mkO 2 1 Follower [] 0%nat 0%nat))])].

Example sample_history_accepted : exists s, run [1; 2; 3] sample_history = ROk s.
Proof. eexists. vm_compute. reflexivity. Qed.

(* and the checker does reject: the same history in which node 3 grants its vote of term 2 twice *)
Example double_vote_rejected :
  run [1; 2; 3] (firstn 5 sample_history ++ [(AVoteReq 3 2 2 true, [(3,(mkO 2 2 Follower [] 0%nat 0%nat))])]) = RFail 5 22.
Proof. vm_compute. reflexivity. Qed.

(* non-vacuity with a snapshot: node 1 leads term 2, replicates its first entry to node 2, commits it,
   and node 3 - which never saw the entry - installs node 1's snapshot covering it *)
Definition sample_history_snapshot : list (aevent * list (N * obs)) := [
 (AStart 1, [(1,(mkO 2 1 Candidate [] 0%nat 0%nat));(2,(mkO 1 0 Follower [] 0%nat 0%nat));(3,(mkO 1 0 Follower [] 0%nat 0%nat))]);
 (AVoteRes 1 1 true, [(1,(mkO 2 1 Candidate [] 0%nat 0%nat))]);
 (AVoteReq 2 2 1 true, [(2,(mkO 2 1 Follower [] 0%nat 0%nat))]);
 (AVoteRes 1 2 true, [(1,(mkO 2 1 Leader [(2,1)] 0%nat 0%nat))]);
 (ASend 1 (mkReq 2 1 0%nat 0 [(2,1)] 0%nat), [(1,(mkO 2 1 Leader [(2,1)] 0%nat 0%nat))]);
 (ARecv 2 (mkReq 2 1 0%nat 0 [(2,1)] 0%nat), [(2,(mkO 2 1 Follower [(2,1)] 1%nat 0%nat))]);
 (AAck 1 2 1%nat, [(1,(mkO 2 1 Leader [(2,1)] 1%nat 1%nat))]);
 (AInstall 3 2 1 [(2,1)] 1%nat, [(3,(mkO 2 0 Follower [(2,1)] 1%nat 1%nat))]);
 (AAck 1 3 1%nat, [(1,(mkO 2 1 Leader [(2,1)] 1%nat 1%nat));(2,(mkO 2 1 Follower [(2,1)] 1%nat 0%nat));(3,(mkO 2 0 Follower [(2,1)] 1%nat 1%nat))])].

Example sample_history_snapshot_accepted : exists s, run [1; 2; 3] sample_history_snapshot = ROk s.
Proof. eexists. vm_compute. reflexivity. Qed.

(* a snapshot whose contents were never acknowledged by a majority is rejected *)
Example uncommitted_snapshot_rejected :
  run [1; 2; 3] (firstn 5 sample_history_snapshot ++ [(AInstall 3 2 1 [(2,1)] 1%nat, [(3,(mkO 2 0 Follower [(2,1)] 1%nat 1%nat))])]) = RFail 5 104.
Proof. vm_compute. reflexivity. Qed.

(* non-vacuity with a request cut by the network: node 1 leads term 2 with two entries in its log and
   sends both to node 2; the connection breaks after node 2 handled the first one (appended and
   flushed, no answer sent); the retransmitted whole request then brings the second entry, node 2's
   answer reaches node 1 and both entries are committed *)
Definition sample_history_cut : list (aevent * list (N * obs)) := [
 (AStart 1, [(1,(mkO 2 1 Candidate [] 0%nat 0%nat));(2,(mkO 1 0 Follower [] 0%nat 0%nat));(3,(mkO 1 0 Follower [] 0%nat 0%nat))]);
 (AVoteRes 1 1 true, [(1,(mkO 2 1 Candidate [] 0%nat 0%nat))]);
 (AVoteReq 2 2 1 true, [(2,(mkO 2 1 Follower [] 0%nat 0%nat))]);
 (AVoteRes 1 2 true, [(1,(mkO 2 1 Leader [(2,1)] 0%nat 0%nat))]);
 (AOther 1, [(1,(mkO 2 1 Leader [(2,1);(2,7)] 0%nat 0%nat))]);
 (ASend 1 (mkReq 2 1 0%nat 0 [(2,1);(2,7)] 0%nat), [(1,(mkO 2 1 Leader [(2,1);(2,7)] 0%nat 0%nat))]);
 (ARecvCut 2 (mkReq 2 1 0%nat 0 [(2,1);(2,7)] 0%nat) 1%nat, [(2,(mkO 2 1 Follower [(2,1)] 1%nat 0%nat))]);
 (ARecv 2 (mkReq 2 1 0%nat 0 [(2,1);(2,7)] 0%nat), [(2,(mkO 2 1 Follower [(2,1);(2,7)] 2%nat 0%nat))]);
 (AAck 1 2 2%nat, [(1,(mkO 2 1 Leader [(2,1);(2,7)] 2%nat 2%nat));(2,(mkO 2 1 Follower [(2,1);(2,7)] 2%nat 0%nat));(3,(mkO 1 0 Follower [] 0%nat 0%nat))])].

Example sample_history_cut_accepted : exists s, run [1; 2; 3] sample_history_cut = ROk s.
Proof. eexists. vm_compute. reflexivity. Qed.

(* the history up to the cut is accepted too: after it node 2 holds exactly the one entry it consumed *)
Example sample_history_cut_prefix_accepted : exists s, run [1; 2; 3] (firstn 7 sample_history_cut) = ROk s.
Proof. eexists. vm_compute. reflexivity. Qed.

(* a cut of a request that no leader ever wrote is rejected *)
Example cut_of_unsent_request_rejected :
  run [1; 2; 3] (firstn 5 sample_history_cut ++
    [(ARecvCut 2 (mkReq 2 1 0%nat 0 [(2,1);(2,7)] 0%nat) 1%nat, [(2,(mkO 2 1 Follower [(2,1)] 1%nat 0%nat))])]) = RFail 5 52.
Proof. vm_compute. reflexivity. Qed.

(* and a cut does not let a follower hold more than the entries it consumed *)
Example cut_with_whole_log_rejected :
  run [1; 2; 3] (firstn 6 sample_history_cut ++
    [(ARecvCut 2 (mkReq 2 1 0%nat 0 [(2,1);(2,7)] 0%nat) 1%nat, [(2,(mkO 2 1 Follower [(2,1);(2,7)] 1%nat 0%nat))])]) = RFail 6 2.
Proof. vm_compute. reflexivity. Qed.
