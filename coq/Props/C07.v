(* C07  Client-visible semantics of updates, reads and barriers: node-level rules.
   Statements; proofs in Node/ClientFacts.v.  (Uniqueness of the entry at a committed position and
   its survival across leaders is C02/C03; here: what the node a client talks to does.) *)
From Coq Require Import List NArith ZArith Bool.
From Verif Require Import Base.Bytes Codec.Messages Node.Types Node.Handlers Node.Leader Node.Snap Node.Step Node.Run Node.ClientFacts.
Import ListNotations.
Open Scope N_scope.

(* a node that is not leader rejects updates, reads and barriers definitively: nothing changes,
   every such task is told NotLeader (not lost); only dirty reads are served *)
Theorem nonleader_rejects_definitively :
  forall s nes s' out, nonleader_client s nes = Done (s', out) ->
    s' = s /\ forall ne, In ne nes -> nq_tid ne <> 0 ->
      In (nq_tid ne, if nq_typ ne =? entryDirtyRead then RpNil else RpNotLeader false) (lo_replies out).
Proof. exact ClientFacts.nonleader_rejects_definitively. Qed.
Print Assumptions nonleader_rejects_definitively.

(* a leader that is transferring leadership or has demoted/removed itself rejects the whole batch
   definitively: the log does not change and every task is told InProgress *)
Theorem leader_rejects_while_transferring_or_demoted :
  forall opt fuel s nes s' out l,
    st_ldr s = Some l -> (ld_tr_active l = true \/ ld_voter l = false) ->
    store_entry opt fuel s nes = Done (s', out) ->
    st_log s' = st_log s /\ st_lastidx s' = st_lastidx s /\
    forall ne, In ne nes -> nq_tid ne <> 0 -> exists k, In (nq_tid ne, RpInProgress k) (lo_replies out).
Proof. exact ClientFacts.leader_rejects_while_transferring_or_demoted. Qed.
Print Assumptions leader_rejects_while_transferring_or_demoted.

(* an accepted batch of updates is appended in batch order at the next indices with the leader's
   term, one entry per update, and queued in that order *)
Theorem accepted_updates_appended_in_order :
  forall opt fuel s datas tids s' out l,
    st_ldr s = Some l -> ld_tr_active l = false -> ld_voter l = true -> length datas = length tids ->
    negb (ld_numvoters l =? 1) = true ->
    (match ld_queue l with ne :: _ => is_log_entry (ne_typ ne) = true | [] => True end) ->
    store_entry opt fuel s (map (fun p => mkNewReq entryUpdate (fst p) (snd p)) (combine datas tids)) = Done (s', out) ->
    st_log s' = st_log s ++ ClientFacts.numbered (st_lastidx s + 1) (st_term s) datas /\
    exists l', st_ldr s' = Some l' /\
      ld_queue l' = ld_queue l ++ ClientFacts.queued (st_lastidx s + 1) tids.
Proof. exact ClientFacts.accepted_updates_appended_in_order. Qed.
Print Assumptions accepted_updates_appended_in_order.

(* tasks are answered from the head of the queue only: an item is released when its index is
   committed, or when it is a read/barrier sitting right after the commit point; nothing behind an
   unreleased item is released (so a read/barrier reflects every update accepted before it) *)
Theorem release_is_a_committed_prefix :
  forall commit q head rest, split_queue commit q = (head, rest) ->
    q = head ++ rest /\
    (forall ne, In ne head -> ne_index ne <= commit \/ (ne_index ne = commit + 1 /\ is_log_entry (ne_typ ne) = false)) /\
    (match rest with
     | ne :: _ => commit < ne_index ne /\ (ne_index ne = commit + 1 -> is_log_entry (ne_typ ne) = true)
     | [] => True end).
Proof. exact ClientFacts.release_is_a_committed_prefix. Qed.
Print Assumptions release_is_a_committed_prefix.

(* the result reported for an update is the state machine's result for the entry stored at the
   index the task was given *)
Theorem update_reply_is_result_at_its_position :
  forall s q out s' ne,
    apply_queue s q [] = Done (s', out) -> In ne q -> ne_typ ne = entryUpdate -> ne_tid ne <> 0 ->
    exists e, log_get s (ne_index ne) = Some e /\ In (ne_tid ne, RpVal (update_result (e_data e))) out
    \/ log_get s (ne_index ne) = None /\ In (ne_tid ne, RpNil) out.
Proof. exact ClientFacts.update_reply_is_result_at_its_position. Qed.
Print Assumptions update_reply_is_result_at_its_position.

(* when leadership ends every task still queued is told that leadership was lost (or that the server
   closed): the ambiguous outcome; the entry, if any, is in the log at most once *)
Theorem release_answers_every_queued_task :
  forall s l s' out, st_ldr s = Some l -> leader_release_out s = (s', out) ->
    st_ldr s' = None /\
    forall ne, In ne (ld_queue l) -> ne_tid ne <> 0 ->
      In (ne_tid ne, if st_closed s then RpServerClosed else RpNotLeader true) (lo_replies out).
Proof. exact ClientFacts.release_answers_every_queued_task. Qed.
Print Assumptions release_answers_every_queued_task.
