(* C06  A committed entry is durable on a majority.
   Statements only; model Abs/Raft.v, proofs Abs/RaftThms.v (invariants in
   Abs/RaftVotes.v, Abs/RaftLog.v, Abs/RaftSafe.v).  Same adversary as C02:
   any cluster size, any interleaving, lost / delayed / duplicated / reordered
   append requests, stale leaders, crash + restart losing the unflushed tail.

   [flushed n] is the length of the prefix of n's log that is on stable storage;
   a crash keeps exactly that prefix. *)
From Coq Require Import List NArith Lia.
From Verif Require Import Abs.Quorum Abs.RaftBase Abs.Raft Abs.RaftThms Abs.RaftRun.
Import ListNotations.
Open Scope N_scope.

(* In every reachable state - in particular at the moment an entry is marked
   committed, and for ever after, since [committed] only grows - every committed
   entry is on the stable storage of every member of some majority of the
   voters.  Hence no set of crashes can remove it from a majority. *)
Theorem committed_durable_on_majority :
  forall V s tc i e,
    Reachable V s -> In (tc, i, e) (committed s) ->
    exists Q, majority V Q /\
      forall v, In v Q ->
        (i <= flushed (st s v))%nat /\ nth_error (log (st s v)) (i - 1) = Some e.
Proof. exact RaftThms.committed_durable_on_majority. Qed.
Print Assumptions committed_durable_on_majority.

Theorem committed_mono :
  forall V s s', step V s s' -> incl (committed s) (committed s').
Proof. exact RaftThms.committed_mono. Qed.
Print Assumptions committed_mono.

(* what a node itself regards as committed is on its own stable storage *)
Theorem commit_le_flushed :
  forall V s n, Reachable V s ->
    (commit (st s n) <= flushed (st s n) /\ flushed (st s n) <= length (log (st s n)))%nat.
Proof. exact RaftThms.commit_le_flushed. Qed.
Print Assumptions commit_le_flushed.

(* any two majorities meet (used to carry durability to later quorums) *)
Theorem two_majorities_meet :
  forall V Q1 Q2, majority V Q1 -> majority V Q2 -> exists v, In v Q1 /\ In v Q2.
Proof. exact Quorum.two_majorities_meet. Qed.
Print Assumptions two_majorities_meet.

(* non-vacuity: at the commit, leader 1 (which flushed just before committing)
   and follower 2 durably hold the entry; after the leader appended one more
   entry without flushing and crashed, index 1 is still there *)
Example hypotheses_satisfiable :
  NoDup V3 /\ Reachable V3 run_committed /\ Reachable V3 run_crashed /\
  committed run_committed = [(2, 1%nat, (2, 0))] /\
  flushed (st run_committed 1) = 1%nat /\ flushed (st run_committed 2) = 1%nat /\
  flushed (st run_committed 3) = 0%nat /\
  flushed (st (do_client_append 1 7 run_followers) 1) = 1%nat /\
  log (st (do_client_append 1 7 run_followers) 1) = [(2, 0); (2, 7)] /\
  log (st run_crashed 1) = [(2, 0)] /\ flushed (st run_crashed 1) = 1%nat.
Proof.
  split; [exact (proj1 run_facts)|]. split; [exact reachable_run_committed|].
  split; [exact reachable_run_crashed|].
  vm_compute. repeat split; reflexivity.
Qed.
Print Assumptions hypotheses_satisfiable.
