(* C16  Leadership transfer is safe and means what it reports.  Statements; proofs in Node/TransferFacts.v *)
From Coq Require Import List NArith ZArith Bool.
From Verif Require Import Base.Bytes Codec.Messages Node.Types Node.Handlers Node.Leader Node.Snap Node.Step Node.Run Node.TransferFacts.
Import ListNotations.
Open Scope N_scope.

(* timeout-now is only ever sent to another node that is a voter of the latest configuration,
   reachable, and whose log matches the leader's whole log.
   REPAIRED (third hypothesis added): "another node" rests on the requested target not being the leader
   (onTransfer refuses that, transfer_validation) or on the leader keeping no replication to itself
   (addReplication asserts that); tryTransfer itself does not test it.  Refuted without it in
   TransferFacts.Refutations. *)
Theorem transfer_target_eligible :
  forall opt s s' out t l,
    try_transfer opt s = Done (s', out) -> st_ldr s = Some l ->
    (ld_tr_target l <> st_nid s \/ find_repl (st_nid s) (ld_repls l) = None) ->
    In (MTimeoutNow t) (lo_msgs out) ->
    t <> st_nid s /\ is_voter (st_latest s) t = true /\
    exists rp, find_repl t (ld_repls l) = Some rp /\ rp_match rp = st_lastidx s /\ rp_nocontact rp = false.
Proof. exact TransferFacts.transfer_target_eligible. Qed.
Print Assumptions transfer_target_eligible.

(* while a transfer is in progress no client command and no configuration entry is accepted:
   the log does not grow and every task of the batch is told so *)
Theorem no_new_entries_during_transfer :
  forall opt fuel s nes s' out l,
    st_ldr s = Some l -> ld_tr_active l = true -> store_entry opt fuel s nes = Done (s', out) ->
    st_log s' = st_log s /\ st_lastidx s' = st_lastidx s /\
    forall ne, In ne nes -> nq_tid ne <> 0 -> In (nq_tid ne, RpInProgress 1) (lo_replies out).
Proof. exact TransferFacts.no_new_entries_during_transfer. Qed.
Print Assumptions no_new_entries_during_transfer.

Theorem no_config_action_during_transfer :
  forall s l, st_ldr s = Some l -> ld_tr_active l = true -> can_change_config s l = false.
Proof. exact TransferFacts.no_config_action_during_transfer. Qed.
Print Assumptions no_config_action_during_transfer.

(* the transfer task is told "success" only when the leader is released having seen a higher term
   than the one in which the transfer was requested *)
Theorem transfer_success_means_higher_term :
  forall s l s' out,
    st_ldr s = Some l -> ld_tr_active l = true -> leader_release_out s = (s', out) ->
    In (ld_tr_tid l, RpNil) (lo_replies out) -> ld_tr_tid l <> 0 ->
    (forall ne, In ne (ld_queue l) -> ne_tid ne <> ld_tr_tid l) -> (~ In (ld_tr_tid l) (ld_waitstable l)) ->
    ld_tr_term l < st_term s.
Proof. exact TransferFacts.transfer_success_means_higher_term. Qed.
Print Assumptions transfer_success_means_higher_term.

(* every other way a transfer ends reports an error and re-enables client and membership tasks *)
Theorem transfer_failure_clears :
  forall opt s r s' out,
    reply_transfer opt s r = Done (s', out) ->
    exists l', st_ldr s' = Some l' /\ ld_tr_active l' = false /\ ld_tr_resp l' = false /\ ld_tr_newterm l' = false.
Proof. exact TransferFacts.transfer_failure_clears. Qed.
Print Assumptions transfer_failure_clears.

(* requests that cannot succeed are refused at once and change nothing.
   REPAIRED ([target <> 0] now also guards [target = st_nid s]): target 0 means "any node"; a leader whose
   own id is 0 (never the case: Config.validate) would not refuse it.  Refuted as first written in
   TransferFacts.Refutations. *)
Theorem transfer_validation :
  forall opt s tid target l,
    st_ldr s = Some l -> tid <> 0 ->
    (ld_tr_active l = true \/ num_voters (st_latest s) = 1 \/
     (target <> 0 /\ (target = st_nid s \/ is_voter (st_latest s) target = false))) ->
    exists r, on_transfer opt s tid target = Done (s, mkOut [(tid, r)] []) /\ r <> RpNil.
Proof. exact TransferFacts.transfer_validation. Qed.
Print Assumptions transfer_validation.

(* a node told to time out now campaigns with the transfer flag; a non-voter refuses (C11) *)
Theorem timeout_now_sets_transfer_flag :
  forall s, is_voter (st_latest s) (st_nid s) = true ->
    fst (on_timeout_now_request s) = success /\ st_role (snd (on_timeout_now_request s)) = Candidate /\
    st_cndtransfer (snd (on_timeout_now_request s)) = true /\ st_term (snd (on_timeout_now_request s)) = st_term s.
Proof. exact TransferFacts.timeout_now_sets_transfer_flag. Qed.
Print Assumptions timeout_now_sets_transfer_flag.
