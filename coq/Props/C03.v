(* C03  State-machine safety.
   Statements only; model Abs/Raft.v, proofs Abs/RaftThms.v (invariants in
   Abs/RaftVotes.v, Abs/RaftLog.v, Abs/RaftSafe.v).  Same adversary as C02:
   any cluster size, any interleaving, lost / delayed / duplicated / reordered
   append requests, stale leaders, crash + restart losing the unflushed tail.

   A node applies to its state machine the entries of its log up to its commit
   index, in order; [firstn (commit n) (log n)] is what node n has applied or may
   apply. *)
From Coq Require Import List NArith Lia.
From Verif Require Import Abs.Quorum Abs.RaftBase Abs.Raft Abs.RaftThms Abs.RaftRun.
Import ListNotations.
Open Scope N_scope.

(* the committed prefixes of any two nodes are prefix-related: one node is
   merely behind the other, they never diverge *)
Theorem state_machine_safety :
  forall V s n1 n2, Reachable V s ->
    (exists tail, firstn (commit (st s n2)) (log (st s n2))
                  = firstn (commit (st s n1)) (log (st s n1)) ++ tail) \/
    (exists tail, firstn (commit (st s n1)) (log (st s n1))
                  = firstn (commit (st s n2)) (log (st s n2)) ++ tail).
Proof. exact RaftThms.state_machine_safety. Qed.
Print Assumptions state_machine_safety.

(* pointwise: no two nodes apply different entries at the same index *)
Theorem applied_agree :
  forall V s n1 n2 i e1 e2,
    Reachable V s -> (1 <= i <= commit (st s n1))%nat -> (i <= commit (st s n2))%nat ->
    nth_error (log (st s n1)) (i - 1) = Some e1 -> nth_error (log (st s n2)) (i - 1) = Some e2 ->
    e1 = e2.
Proof. exact RaftThms.applied_agree. Qed.
Print Assumptions applied_agree.

(* the commit index of a node only grows, except when that node restarts *)
Theorem commit_monotone :
  forall V s s' n,
    step V s s' -> (commit (st s n) <= commit (st s' n))%nat \/ exists c, s' = do_crash n c s.
Proof. exact RaftThms.commit_monotone. Qed.
Print Assumptions commit_monotone.

(* and what lies below it never changes (so a node never has to un-apply), not
   even across its own restart: after a restart it re-applies the same entries *)
Theorem commit_stable :
  forall V s s' n i,
    Reachable V s -> step V s s' -> (1 <= i <= commit (st s n))%nat ->
    nth_error (log (st s' n)) (i - 1) = nth_error (log (st s n)) (i - 1).
Proof. exact RaftThms.commit_stable. Qed.
Print Assumptions commit_stable.

(* non-vacuity: leader and a follower both have commit index 1 over the same
   entry, a third node is behind with an empty log *)
Example hypotheses_satisfiable :
  NoDup V3 /\ Reachable V3 run_followers /\
  commit (st run_followers 1) = 1%nat /\ commit (st run_followers 2) = 1%nat /\
  commit (st run_followers 3) = 0%nat /\
  log (st run_followers 1) = [(2, 0)] /\ log (st run_followers 2) = [(2, 0)] /\
  log (st run_followers 3) = [] /\
  Reachable V3 run_crashed /\ commit (st run_crashed 1) = 0%nat /\
  log (st run_crashed 1) = [(2, 0)].
Proof.
  split; [exact (proj1 run_facts)|]. split; [exact reachable_run_followers|].
  split; [vm_compute; reflexivity|]. split; [vm_compute; reflexivity|].
  split; [vm_compute; reflexivity|]. split; [vm_compute; reflexivity|].
  split; [vm_compute; reflexivity|]. split; [vm_compute; reflexivity|].
  split; [exact reachable_run_crashed|].
  vm_compute. split; reflexivity.
Qed.
Print Assumptions hypotheses_satisfiable.
