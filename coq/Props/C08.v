(* C08  Membership changes preserve safety.  Statements; proofs in Node/ConfigFacts.v and Abs/Quorum.v.
   What is NOT mechanised is said at the end of this file. *)
From Coq Require Import List NArith ZArith Bool Sorted.
From Verif Require Import Base.Bytes Codec.Messages Node.Types Node.Handlers Node.Leader Node.Snap Node.Step Node.Run Node.ConfigFacts.
Import ListNotations.
Open Scope N_scope.

(* voters of a configuration; two configurations are adjacent when their voter sets differ in at
   most one node *)
Definition voters := ConfigFacts.voters.
Definition adjacent := ConfigFacts.adjacent.

(* every configuration the leader derives from a configuration c by carrying out one action
   (promote, demote, remove, force-remove; on itself or on another node) is adjacent to c *)
Theorem action_result_adjacent :
  forall c id v a,
    adjacent c (cfg_set_node c (with_voter_action (cfg_node0 c id) v a)) /\ adjacent c (cfg_del_node c id).
Proof. exact ConfigFacts.action_result_adjacent. Qed.
Print Assumptions action_result_adjacent.

(* majorities of adjacent configurations intersect (so no two disjoint quorums exist across one step) *)
Theorem adjacent_majorities_intersect :
  forall c c' Q Q', adjacent c c' -> NoDup (voters c) -> NoDup (voters c') ->
    ConfigFacts.majority_of c Q -> ConfigFacts.majority_of c' Q' -> exists v, In v Q /\ In v Q'.
Proof. exact ConfigFacts.adjacent_majorities_intersect. Qed.
Print Assumptions adjacent_majorities_intersect.

(* a submitted configuration is looked at only if the previous one is committed, the leader has
   committed an entry of its own term, nobody's voting right is changed directly, no node vanishes,
   new nodes are non-voters and a voter without pending action remains; otherwise the task fails and
   nothing changes *)
Theorem change_config_validation :
  forall opt s tid c l,
    st_ldr s = Some l -> tid <> 0 ->
    (configs_committed s = false \/ st_commit s < ld_start l \/ c_index c <> c_index (st_latest s) \/
     (exists n, In n (c_nodes (st_latest s)) /\ (cfg_node c (n_id n) = None \/
                 exists nn, cfg_node c (n_id n) = Some nn /\ n_voter nn <> n_voter n)) \/
     (exists n, In n (c_nodes c) /\ cfg_node (st_latest s) (n_id n) = None /\ n_voter n = true) \/
     (forall n, In n (c_nodes c) -> n_voter n = true -> n_action n <> ActNone)) ->
    exists r, on_change_config opt s tid c = Done (s, mkOut [(tid, r)] []) /\ r <> RpNil.
Proof. exact ConfigFacts.change_config_validation. Qed.
Print Assumptions change_config_validation.

(* an accepted request has the voters of the latest configuration.
   REPAIRED STATEMENT: the hypothesis NoDup (map n_id (c_nodes c)) was added.  Without it the statement
   is false for the model (ConfigFacts.DupIds.counterexample, checked below): the model keeps a
   configuration's nodes in a list, onChangeConfig looks nodes up by id and sees only the first of two
   nodes with the same id.  Go's Config.Nodes is a map keyed by id, so distinct ids always hold there. *)
Theorem accepted_request_same_voters :
  forall opt s tid c s' out,
    NoDup (map n_id (c_nodes c)) ->
    on_change_config opt s tid c = Done (s', out) -> st_lastidx s < st_lastidx s' ->
    (forall id, In id (voters c) <-> In id (voters (st_latest s))).
Proof. exact ConfigFacts.accepted_request_same_voters. Qed.
Print Assumptions accepted_request_same_voters.

Theorem accepted_request_dup_ids_counterexample :
  exists opt s tid c s' out,
    on_change_config opt s tid c = Done (s', out) /\ st_lastidx s < st_lastidx s' /\
    ~ (forall id, In id (voters c) <-> In id (voters (st_latest s))).
Proof.
  destruct ConfigFacts.DupIds.counterexample as (s' & out & H & L & I1 & I2 & _).
  exists ConfigFacts.DupIds.opt0, ConfigFacts.DupIds.s0, 7, ConfigFacts.DupIds.cdup, s', out.
  split; [exact H|]. split; [exact L|]. intros X. apply I2, X, I1.
Qed.
Print Assumptions accepted_request_dup_ids_counterexample.

(* a configuration entry is appended by checkConfigAction(s) only when canChangeConfig holds:
   latest configuration committed, an entry of the leader's own term committed, no transfer *)
Theorem config_action_only_when_ready :
  forall opt fuel s tid c id s' out l,
    st_ldr s = Some l -> check_config_action opt fuel s tid c id = Done (s', out) ->
    st_lastidx s < st_lastidx s' ->
    configs_committed s = true /\ ld_start l <= st_commit s /\ ld_tr_active l = false.
Proof. exact ConfigFacts.config_action_only_when_ready. Qed.
Print Assumptions config_action_only_when_ready.

(* followers: after an append request the latest configuration is that of the newest configuration
   entry the request appended (if any); a truncation at or below the latest configuration's index
   falls back to the committed one.
   REPAIRED STATEMENT: the hypothesis [increasing es] (entry indices strictly increasing, as in every
   request a leader builds: flr_send takes a contiguous piece of its log) was added.  Without it the
   statement is false for the model (ConfigFacts.NotIncreasing.counterexample): a later entry of the
   request with the same index and another term makes the follower truncate e again. *)
Definition increasing (es : list entry) : Prop := StronglySorted (fun a b => e_index a < e_index b) es.

Theorem follower_adopts_newest_config :
  forall s es index term sync s' i t sy failed c e,
    increasing es ->
    consume_entries s es index term sync = Done (s', i, t, sy, failed) -> failed = false ->
    In e es -> e_typ e = entryConfig -> config_of_entry e = Some c ->
    (forall e', In e' es -> e_typ e' = entryConfig -> e_index e' <= e_index e) ->
    st_lastidx s < e_index e -> st_snapidx s < e_index e ->
    st_latest s' = c.
Proof. exact ConfigFacts.follower_adopts_newest_config. Qed.
Print Assumptions follower_adopts_newest_config.

(* the pre-repair guard (own-term commit not required for pending actions) is refuted: a freshly
   elected leader with a pending demotion appended a configuration entry in leader.init *)
Theorem pending_action_at_init_before_fix_refuted :
  exists s l, st_ldr s = Some l /\ st_commit s < ld_start l /\ can_change_config_before_fix s l = true /\
              can_change_config s l = false.
Proof. exact ConfigFacts.pending_action_at_init_before_fix_refuted. Qed.
Print Assumptions pending_action_at_init_before_fix_refuted.

(* The cross-leader argument - that election safety, leader completeness and state-machine safety
   (C01, C02, C03) hold under membership changes - is mechanised in Props/C08_abs.v on the abstract
   protocol Abs/CfgRaft.v, whose reconfiguration step has exactly the guards proved above for the
   node model (previous configuration committed, an own-term entry committed, voter sets one node
   apart), and whose variant without the own-term guard is refuted there.  What links the two levels:
   the theorems of this file (the node model takes a reconfiguration step only under those guards,
   and every derived configuration is adjacent) and the per-event correspondence of the node model
   with the code.  Not covered by Abs/CfgRaft.v: loss of the unflushed tail at a crash and snapshots
   (they are in Abs/Raft.v, for a static voter set). *)
