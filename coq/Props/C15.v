(* C15  No self-inflicted failure; every task completes; shutdown terminates.
   PARTIAL by nature: data races, concurrent map access, deadlocks and goroutine leaks live in the Go
   runtime and no executable Gallina model can exhibit them (they are exercised by the simulator's
   monitors and named in the evidence).  What is proved here: the task ledger (every task the model
   accepts is answered exactly once, shutdown answers everything pending).  That no handler panics
   (assertions, index/nil-view errors) is NOT a theorem: it is observed by the panic monitor on every
   event the drivers execute.  Proofs in Node/TaskFacts.v *)
From Coq Require Import List NArith ZArith Bool.
From Verif Require Import Base.Bytes Codec.Messages Node.Types Node.Handlers Node.Leader Node.Snap Node.Step Node.Run Node.TaskFacts.
Import ListNotations.
Open Scope N_scope.

(* tasks waiting for an answer inside a node: the leader's queue, its waitStable list, the transfer
   in progress, the snapshot in flight *)
Definition pending := TaskFacts.pending.
(* tasks an event submits (fresh ids chosen by the caller) *)
Definition submitted := TaskFacts.submitted.

(* the ledger: whatever the event, the tasks pending before it plus the ones it submits are, as a
   multiset, the tasks pending after it plus the ones it answered -- nothing is answered twice,
   nothing is dropped.
   [TaskFacts.fresh s ev]: the submitted ids are distinct and not pending in s; the event is
   [admissible] and [enabled] (a leader event that submits a task is taken by a leader).
   [admissible s ev] excludes: a restart of a process that holds tasks; the reserved id 0 for
   waitStable/transfer; and, for a changeConfig task LChangeConfig tid c, requires
       tid = 0  \/  is_stable c = true  \/  TaskFacts.covered_change s c
   where [covered_change s c] is: wf_config c (a configuration Go's types allow: distinct ids, fields in
   range), leader_votes s (the leader is a voter unless a transfer is in progress),
   c_index (st_latest s) <= st_lastidx s, and no_solo c (st_nid s) = true (no single membership action
   of c -- demoting/removing the only other voter, removing a non-voter from a one-voter cluster --
   leaves the leader as the only voter, i.e. the entry appended for an action cannot commit inside the
   same call).  So a changeConfig task that promotes, demotes or removes nodes is covered whenever the
   cluster keeps a second voter through each single action.  Not covered: the immediate-commit path
   (TaskFacts.cex_change_config_solo: there the task is answered twice when the map-iteration oracle
   o_order repeats an id; task_ledger quantifies over every oracle).  The other clauses are justified
   by machine-checked counterexamples as well (TaskFacts.cex_...), and TaskFacts.ex_history (ten
   events, five tasks pending at once) and TaskFacts.ex2_history (a changeConfig task whose Promote is
   carried out in the step that accepts it) are concrete histories that meet all of them. *)
Theorem task_ledger :
  forall opt s ev o s', model_event opt s ev = Done (o, s') ->
    TaskFacts.ledger_ok s -> TaskFacts.fresh s ev ->
    Permutation.Permutation (pending s ++ submitted ev) (pending s' ++ map fst (lo_replies (ob_out o))) /\
    TaskFacts.ledger_ok s'.
Proof. exact TaskFacts.task_ledger. Qed.
Print Assumptions task_ledger.

(* hence over any history no task id is ever answered twice.
   [TaskFacts.nrun_fresh s tr s']: a run of model_event steps, each [fresh] for the state it meets,
   in which a task id is used for one task only (an id submitted by one event is not submitted again
   by a later one).  [TaskFacts.answered tr]: the ids of all replies of the history, in order.
   TaskFacts.run_ledger is the multiset form: pending at the start + submitted = answered + pending at
   the end. *)
Theorem answered_at_most_once :
  forall s tr s', TaskFacts.nrun_fresh s tr s' -> TaskFacts.ledger_ok s -> pending s = [] ->
    NoDup (TaskFacts.answered tr ++ pending s').
Proof. exact TaskFacts.answered_at_most_once. Qed.
Print Assumptions answered_at_most_once.

(* when leadership ends (step down, or shutdown) nothing stays pending in the leader's structures,
   and on shutdown every answer given at that moment is ServerClosed *)
Theorem release_leaves_nothing_pending :
  forall s s' out, leader_release_out s = (s', out) ->
    TaskFacts.leader_pending s' = [] /\
    (st_closed s = true -> forall t r, In (t, r) (lo_replies out) -> r = RpServerClosed \/ r = RpNil).
Proof. exact TaskFacts.release_leaves_nothing_pending. Qed.
Print Assumptions release_leaves_nothing_pending.

(* the hypotheses are satisfiable: a two-node cluster's node is bootstrapped, elected, accepts client,
   transfer, snapshot and waitStable tasks and is shut down with all of them pending *)
Example history_exists :
  TaskFacts.nrun_fresh (fresh_node 1 1) TaskFacts.ex_trace TaskFacts.ex_end /\
  TaskFacts.ledger_ok (fresh_node 1 1) /\ pending (fresh_node 1 1) = [] /\
  TaskFacts.answered TaskFacts.ex_trace = [3; 9; 5; 6; 8; 7] /\ pending TaskFacts.ex_end = [] /\
  st_closed TaskFacts.ex_end = true.
Proof.
  split; [exact TaskFacts.ex_history|]. split; [apply TaskFacts.ledger_ok_fresh_node|].
  split; [reflexivity|]. exact TaskFacts.ex_answered.
Qed.
Print Assumptions history_exists.

(* ... also with a changeConfig task that carries a membership action: node 1, alone, learns of nodes 2
   and 3 (task 10), promotes node 2 (task 11: the action is carried out at once, the task stays pending
   with the configuration appended for it, Latest gets index 4 with node 2 a voter) and is answered
   when that configuration commits *)
Example history_with_action_exists :
  TaskFacts.nrun_fresh (fresh_node 1 1) TaskFacts.ex2_trace TaskFacts.ex2_end /\
  TaskFacts.answered TaskFacts.ex2_trace = [3; 10; 11] /\ pending TaskFacts.ex2_end = [] /\
  pending (TaskFacts.ex2_after 5) = [11] /\ c_index (st_latest (TaskFacts.ex2_after 5)) = 4 /\
  is_voter (st_latest (TaskFacts.ex2_after 5)) 2 = true.
Proof. split; [exact TaskFacts.ex2_history | exact TaskFacts.ex2_answered]. Qed.
Print Assumptions history_with_action_exists.
