(* C09  Snapshots, compaction and snapshot installation are transparent: node-level statements.
   Proofs in Node/CompactFacts.v.  PARTIAL for the last clause of the property: that no replication
   goroutine touches a segment at the instant it is unmapped is a statement about real concurrency;
   what is proved is the bookkeeping that makes every index a replication may still read stay in
   the log (the property the pre-repair code broke, known_findings.json D13/D5). *)
From Coq Require Import List NArith ZArith Bool.
From Verif Require Import Base.Bytes Codec.Messages Node.Types Node.Handlers Node.Leader Node.Snap Node.Step Node.Run Node.CompactFacts.
Import ListNotations.
Open Scope N_scope.

(* the state machine is fed exactly the entries after its position up to the commit index, in index
   order and without gaps; if one of them is missing from the log the step fails instead *)
Theorem apply_is_contiguous :
  forall s s', apply_committed s = Done s' ->
    st_fsmidx s' = st_commit s /\ st_log s' = st_log s /\ st_fsmidx s <= st_commit s /\
    forall i, st_fsmidx s < i -> i <= st_commit s -> exists e, log_get s i = Some e /\ e_index e = i.
Proof. exact CompactFacts.apply_is_contiguous. Qed.
Print Assumptions apply_is_contiguous.

(* a snapshot never contains uncommitted updates: its index is the state machine's position, which
   never exceeds the commit index *)
Theorem snapshot_only_committed :
  forall s tid th s' out rq, st_fsmidx s <= st_commit s -> on_take_snapshot s tid th = Done (s', out) ->
    st_snapbusy s = false -> st_snapreq s' = Some rq -> sr_index rq <= st_commit s.
Proof. exact CompactFacts.snapshot_only_committed. Qed.
Print Assumptions snapshot_only_committed.

(* compaction (after a local snapshot, after the followers released a prefix, after an installed
   snapshot the log already covers) never removes anything beyond the latest snapshot, and only
   removes a prefix: the node can restart from snapshot + log suffix *)
Theorem compaction_never_beyond_snapshot :
  forall opt s s' out, st_logprev s <= st_snapidx s -> on_snapshot_taken opt s = Done (s', out) ->
    (forall rq idx, st_snapreq s = Some rq -> sr_done rq = SnapOk idx -> idx <= st_snapidx s) ->
    st_logprev s <= st_logprev s' /\ st_logprev s' <= st_snapidx s' /\ st_snapidx s' = st_snapidx s /\
    st_log s' = skipn (N.to_nat (st_logprev s' - st_logprev s)) (st_log s) /\ st_lastidx s' = st_lastidx s.
Proof. exact CompactFacts.compaction_never_beyond_snapshot. Qed.
Print Assumptions compaction_never_beyond_snapshot.

(* ... and on a leader it keeps, for every follower, the entry at the follower's match index and
   everything after it: whatever a replication still reads through its view is still mapped *)
Theorem compaction_keeps_what_replications_read :
  forall opt s s' out l rp, st_ldr s = Some l -> st_role s = Leader -> In rp (ld_repls l) ->
    on_snapshot_taken opt s = Done (s', out) ->
    st_logprev s' = st_logprev s \/ st_logprev s' < rp_match rp.
Proof. exact CompactFacts.compaction_keeps_what_replications_read. Qed.
Print Assumptions compaction_keeps_what_replications_read.

(* and the replications are handed a view that starts at or after the new beginning of the log
   (never the nil view the pre-repair code produced).
   REPAIRED: the second half is now conditional on the snapshot having succeeded at an index the log
   contains and the cached last index covers.  As first written (unconditional) it is false: a failed
   snapshot task (ErrNoUpdates / threshold) or a snapshot the log no longer contains notifies nobody
   (CompactFacts.Refuted.failed_snapshot_notifies_nobody), and in a state whose st_lastidx is behind
   the snapshot index Log.ViewAt returns the nil view (CompactFacts.Refuted.stale_last_index_gives_nil_view;
   such a state violates st_lastidx = log_lastindex and is not reached by runs). *)
Theorem compaction_refreshes_views :
  forall opt s s' out l l', st_ldr s = Some l -> st_role s = Leader -> st_ldr s' = Some l' ->
    on_snapshot_taken opt s = Done (s', out) -> st_logprev s <= ld_removelte l -> o_newremovelte opt <> 0 ->
    st_logprev s' <= ld_removelte l' /\
    (forall rq idx, st_snapreq s = Some rq -> sr_done rq = SnapOk idx -> log_contains s idx = true ->
       idx <= st_lastidx s ->
       forall rp, In rp (ld_repls l') -> exists u, rp_pending rp = Some u /\ pu_viewprev u = ld_removelte l').
Proof. exact CompactFacts.compaction_refreshes_views. Qed.
Print Assumptions compaction_refreshes_views.

(* a follower whose next entry was compacted away is sent the snapshot, never garbage: the request
   writer either builds a request from entries that are in the log or asks for a snapshot *)
Theorem lagging_follower_gets_entries_or_snapshot :
  forall s id b s' out l rp, st_ldr s = Some l -> find_repl id (ld_repls l) = Some rp ->
    flr_send s id b = Done (s', out) ->
    lo_msgs out = [MNeedSnapshot id] \/
    exists q, lo_msgs out = [MAppend id q] /\ aq_previdx q = rp_next rp - 1 /\
              forall e, In e (aq_entries q) -> In e (st_log s).
Proof. exact CompactFacts.lagging_follower_gets_entries_or_snapshot. Qed.
Print Assumptions lagging_follower_gets_entries_or_snapshot.

(* installing a snapshot the log does not cover replaces log and state machine position together *)
Theorem install_resets_consistently :
  forall s q np s', on_install_snap_request s q np = Done (success, s') -> st_term s <= sq_term q ->
    st_snapidx s < sq_lastidx q -> log_contains s (sq_lastidx q) = false ->
    st_logprev s' = sq_lastidx q /\ st_lastidx s' = sq_lastidx q /\ st_fsmidx s' = sq_lastidx q /\
    st_commit s' = sq_lastidx q /\ st_lastterm s' = sq_lastterm q.
Proof. exact CompactFacts.install_resets_consistently. Qed.
Print Assumptions install_resets_consistently.
