(* C17 (abstract protocol with membership changes)  Possibility of progress.  Statements only.
   Model: Abs/CfgRaft.v (step = gstep true; gsteps = zero or more steps).
   cfg V0 s n = cfg_of V0 (log (st s n)): the latest configuration in n's own log (V0 if none).
   Whatever happened before (crashes, partial replication, pending reconfigurations, stale
   leaders elsewhere, members of Q in higher terms): if n is a voter of its own configuration,
   Q is a majority of that configuration containing n, and n's log is at least as up to date
   as every member's, there is a continuation in which n is elected with the votes of Q and
   commits a NEW client entry x with quorum Q (no reconfiguration step is used).
   Proofs: Abs/CfgLive.v. *)
From Coq Require Import List NArith Lia.
From Verif Require Import Abs.Quorum Abs.CfgQuorum Abs.CfgBase Abs.CfgRaft Abs.CfgLive.
Import ListNotations.
Open Scope N_scope.

Theorem cfg_progress_possible : forall V0, NoDup V0 -> forall s n Q x, Reachable V0 s ->
  In n (cfg V0 s n) -> majority (cfg V0 s n) Q -> In n Q ->
  (forall v, In v Q -> uptodate (log (st s n)) (log (st s v))) ->
  exists s', gsteps V0 true s s' /\ role (st s' n) = Leader /\
    exists t k, In (t, k, (t, PData x)) (committed s') /\
      ~ In (t, k, (t, PData x)) (committed s) /\ cur (st s' n) = t.
Proof. exact CfgLive.cfg_progress_possible. Qed.
Print Assumptions cfg_progress_possible.

(* the hypothesis on n is satisfiable: every non-empty set of nodes has a member whose log is
   at least as up to date as every member's *)
Theorem cfg_progress_possible_exists_candidate : forall (s : state) (Q : list N), Q <> [] ->
  exists n, In n Q /\ forall v, In v Q -> uptodate (log (st s n)) (log (st s v)).
Proof. exact CfgLive.cfg_progress_possible_exists_candidate. Qed.
Print Assumptions cfg_progress_possible_exists_candidate.
