(* C06  Acknowledged entries are durable on a majority of voters: the node-level rules.
   (The cluster-level theorem over the abstract protocol is in Props/C06.v.)  Proofs in Node/CommitFacts.v *)
From Coq Require Import List NArith ZArith Bool.
From Verif Require Import Base.Bytes Codec.Messages Node.Types Node.Handlers Node.Leader Node.Snap Node.Step Node.Run Node.CommitFacts.
Import ListNotations.
Open Scope N_scope.

(* the commit point the leader computes is matched by a majority of the VOTERS of the latest
   configuration, the leader counting itself only if it is a voter *)
Theorem majority_match_sound :
  forall s l m,
    majority_match s l = Done m ->
    ld_numvoters l = num_voters (st_latest s) -> ld_voter l = is_voter (st_latest s) (st_nid s) ->
    NoDup (map n_id (c_nodes (st_latest s))) -> 1 <= num_voters (st_latest s) ->
    exists Q, NoDup Q /\ (forall v, In v Q -> is_voter (st_latest s) v = true) /\
              quorum (st_latest s) <= N.of_nat (length Q) /\
              forall v, In v Q ->
                (v = st_nid s /\ m <= st_lastidx s) \/
                (exists rp, find_repl v (ld_repls l) = Some rp /\ m <= rp_match rp).
Proof. exact CommitFacts.majority_match_sound. Qed.
Print Assumptions majority_match_sound.

(* the cached voter count and voter flag always describe the latest configuration (the invariant the
   pre-repair code broke: known_findings.json D2) *)
Theorem leader_cache_invariant :
  forall opt s e s' l l',
    leader_event opt s e = Done s' -> st_ldr s = Some l -> st_ldr s' = Some l' ->
    ld_numvoters l = num_voters (st_latest s) -> ld_voter l = is_voter (st_latest s) (st_nid s) ->
    ld_numvoters l' = num_voters (st_latest s') /\ ld_voter l' = is_voter (st_latest s') (st_nid s').
Proof. exact CommitFacts.leader_cache_invariant. Qed.
Print Assumptions leader_cache_invariant.

Theorem leader_init_cache :
  forall opt s s' l', leader_init opt s = Done s' -> st_ldr s' = Some l' ->
    ld_numvoters l' = num_voters (st_latest s') /\ ld_voter l' = is_voter (st_latest s') (st_nid s').
Proof. exact CommitFacts.leader_init_cache. Qed.
Print Assumptions leader_init_cache.

(* the leader advances its commit index only to the majority match, only beyond the start of its
   term, and flushes its own log up to there first *)
Theorem leader_commit_rule :
  forall opt fuel s s' out l,
    st_ldr s = Some l -> on_majority_commit opt fuel s = Done (s', out) -> st_commit s < st_commit s' ->
    exists m, majority_match s l = Done m /\ ld_start l <= m /\ st_commit s < m /\
              N.min m (log_lastindex s) <= st_flushed s'.
Proof. exact CommitFacts.leader_commit_rule. Qed.
Print Assumptions leader_commit_rule.

(* a follower that answers success has flushed everything it appended for that request.
   REPAIRED STATEMENT: the hypothesis st_lastidx s = log_lastindex s was added (the stored last index is
   the log's; true of every state the implementation reaches: restart recomputes it and appendEntry,
   removeGTE, clearLog update both).  Without it the statement is false for the model
   (CommitFacts.StaleLastIndex.counterexample): commitLog(lastLogIndex) then flushes too little. *)
Theorem follower_flush_before_success :
  forall sor s q s', st_lastidx s = log_lastindex s -> on_append_request sor s q = Done (success, s') ->
    st_log s' = st_log s \/ log_lastindex s' <= st_flushed s'.
Proof. exact CommitFacts.follower_flush_before_success. Qed.
Print Assumptions follower_flush_before_success.

(* a follower advances its commit index only to an index the request covers, that the leader has
   committed, and whose entry carries the leader's current term *)
Theorem follower_commit_rule :
  forall s q index term, can_commit s q index term = true ->
    index <= aq_commit q /\ term = aq_term q /\ st_commit s < index.
Proof. exact CommitFacts.follower_commit_rule. Qed.
Print Assumptions follower_commit_rule.
