(* C13 (byte level)  The segment file layout implements the entry list.
   Statements only; model in SegLog/Segment.v, proofs in SegLog/SegmentProofs.v.

   WHAT IS MODELLED: /repo/log/segment.go's layout and arithmetic, byte for
   byte.  A segment file is Data : []byte of fixed length cap.  Entry bytes
   are copied upwards from Data[0].  A table of 8-byte little-endian slots
   grows DOWN from the end: at(i) = cap - 8i - 8.  Slot 0 is the header
   (entries covered by the last completed sync); slot k >= 1 is the offset
   where entry k starts; entry k is Data[slot k .. slot (k+1)).  In memory:
   n (entries) and size (= slot n+1).  Modelled methods: at, offset,
   setOffset, available, append, get, removeGTE (before its sync), the
   setOffset(n,0) step of sync, openSegment's two reads, createSegment's
   zero-filled file.  [b_get] is None exactly where Go panics (index 0, a slot
   outside the file, Data[from:to] with from > to or to > len).

   The relation  R s ents  says: n = |ents|, size = |concat ents|, slots
   1..n+1 hold the running totals, Data[0..size) = concat ents, and
   8(n+2) + size <= cap, i.e. size <= at(n+1): the entry bytes stay below the
   lowest used slot.  The header (slot 0), the gap, and slots beyond n+1 are
   unconstrained (they hold stale bytes after removeGTE).  [b_matches] is the
   executable form of the file-image part of R; the harness applies it to the
   real bytes of a segment file.

   WHAT IS NOT MODELLED: mmap, msync/page write-back order, files and
   directories, errors from the OS.  The file is a list of bytes and every
   write is immediately visible.  Flush ordering (data before header) is
   treated at the entry level in SegLog/Crash*.v; here [open_R] shows that
   whatever the header says (<= n) is what a reopen recovers, and
   [append_header] that append never touches the header.  Go's int is taken
   to be 64 bit (cap < 2^64 is a hypothesis of R); a slot value is decoded
   with no int(uint64) wrap because values above cap are rejected. *)
From Coq Require Import List NArith ZArith.
From Verif Require Import Base.Bytes SegLog.Log SegLog.Segment SegLog.SegmentProofs.
Import ListNotations.
Local Open Scope nat_scope.

(* ------------------------------------------------------------ createSegment *)

(* a zero-filled file of at least 16 bytes (slot 0 and slot 1: exactly the 16
   bytes createSegment writes) is the empty segment *)
Theorem fresh_R : forall cap, 16 <= cap -> (N.of_nat cap < two64)%N -> R (b_fresh cap) [].
Proof. exact SegmentProofs.fresh_R. Qed.
Print Assumptions fresh_R.

Theorem fresh_header : forall cap, 16 <= cap -> b_offset (b_fresh cap) 0 = Some 0%N.
Proof. exact SegmentProofs.fresh_header. Qed.
Print Assumptions fresh_header.

(* 16 is minimal: below it openSegment's read of slot 1 is out of bounds *)
Theorem fresh_needs_16 : forall cap, cap < 16 -> b_offset (b_fresh cap) 1 = None.
Proof. exact SegmentProofs.fresh_needs_16. Qed.
Print Assumptions fresh_needs_16.

(* ------------------------------------------------------------------ append *)

Theorem append_cap : forall s (bs : bytes), b_cap (b_append s bs) = b_cap s.
Proof. exact SegmentProofs.append_cap. Qed.
Print Assumptions append_cap.

(* under the test Log.Append performs (len(b) <= available()) the copied bytes
   never reach the slot being written, earlier slots and entries are
   unchanged, and the new entry is entry n+1 *)
Theorem append_R : forall s ents bs,
  R s ents -> wf_bytes bs -> (Z.of_nat (length bs) <= b_available s)%Z ->
  R (b_append s bs) (ents ++ [bs]).
Proof. exact SegmentProofs.append_R. Qed.
Print Assumptions append_R.

Theorem append_header : forall s ents (bs : bytes),
  R s ents -> (Z.of_nat (length bs) <= b_available s)%Z ->
  b_offset (b_append s bs) 0 = b_offset s 0.
Proof. exact SegmentProofs.append_header. Qed.
Print Assumptions append_header.

(* the test is exact: one byte more and data and slot table overlap *)
Theorem append_overflow : forall s ents (bs : bytes),
  R s ents -> (b_available s < Z.of_nat (length bs))%Z ->
  ~ R (b_append s bs) (ents ++ [bs]).
Proof. exact SegmentProofs.append_overflow. Qed.
Print Assumptions append_overflow.

(* R's bound in segment.go's terms: at(n+1) is inside the file and size <= at(n+1) *)
Theorem R_bound_at : forall s ents,
  R s ents -> exists p, b_at (b_cap s) (b_n s + 1) = Some p /\ b_size s <= p.
Proof. exact SegmentProofs.R_bound_at. Qed.
Print Assumptions R_bound_at.

(* --------------------------------------------------------------------- get *)

(* reads return exactly the bytes appended; a k-entry read is the
   concatenation of k entries (k = 0: the empty slice) *)
Theorem get_R : forall s ents i k,
  R s ents -> 1 <= i -> i + k <= length ents + 1 ->
  b_get s i k = Some (concat (firstn k (skipn (i - 1) ents))).
Proof. exact SegmentProofs.get_R. Qed.
Print Assumptions get_R.

(* index 0 is refused (Go: panic "i<=prevIndex").  For i + k > n + 1 nothing
   is promised: see [ex_stale_read] below. *)
Theorem get_zero : forall s k, b_get s 0 k = None.
Proof. exact SegmentProofs.get_zero. Qed.
Print Assumptions get_zero.

(* ------------------------------------------------- removeGTE, sync, reopen *)

Theorem remove_gte_R : forall s ents n',
  R s ents -> n' <= length ents -> R (b_remove_gte s n') (firstn n' ents).
Proof. exact SegmentProofs.remove_gte_R. Qed.
Print Assumptions remove_gte_R.

(* removeGTE lowers the header at once *)
Theorem remove_gte_header : forall s ents n',
  R s ents -> n' < length ents -> b_offset (b_remove_gte s n') 0 = Some (N.of_nat n').
Proof. exact SegmentProofs.remove_gte_header. Qed.
Print Assumptions remove_gte_header.

Theorem sync_header_R : forall s ents,
  R s ents ->
  R (b_sync_header s) ents /\ b_offset (b_sync_header s) 0 = Some (N.of_nat (length ents)).
Proof. exact SegmentProofs.sync_header_R. Qed.
Print Assumptions sync_header_R.

(* reopening a file recovers exactly the first [header] entries *)
Theorem open_R : forall s ents h,
  R s ents -> b_offset s 0 = Some (N.of_nat h) -> h <= length ents ->
  exists s', b_open (b_data s) = Some s' /\ R s' (firstn h ents) /\ b_data s' = b_data s.
Proof. exact SegmentProofs.open_R. Qed.
Print Assumptions open_R.

Theorem open_after_sync : forall s ents,
  R s ents -> exists s', b_open (b_data (b_sync_header s)) = Some s' /\ R s' ents.
Proof. exact SegmentProofs.open_after_sync. Qed.
Print Assumptions open_after_sync.

(* an append not yet followed by sync is invisible after reopening: no
   partial entry, the entries under the header intact *)
Theorem open_after_append : forall s ents bs h,
  R s ents -> wf_bytes bs -> (Z.of_nat (length bs) <= b_available s)%Z ->
  b_offset s 0 = Some (N.of_nat h) -> h <= length ents ->
  exists s', b_open (b_data (b_append s bs)) = Some s' /\ R s' (firstn h ents).
Proof. exact SegmentProofs.open_after_append. Qed.
Print Assumptions open_after_append.

(* ------------------------------------------------- the executable relation *)

Theorem matches_iff : forall data cap ents hdr,
  b_matches data cap ents hdr = true <-> Rdata data cap ents hdr.
Proof. exact SegmentProofs.matches_iff. Qed.
Print Assumptions matches_iff.

(* the check on real file bytes establishes R for the in-memory fields n, size *)
Theorem matches_wf_R : forall s ents hdr,
  b_matches_wf (b_data s) (N.of_nat (b_cap s)) ents hdr = true ->
  b_n s = length ents -> b_size s = length (concat ents) ->
  (N.of_nat (b_cap s) < two64)%N ->
  R s ents /\ b_offset s 0 = Some hdr.
Proof. exact SegmentProofs.matches_wf_R. Qed.
Print Assumptions matches_wf_R.

Theorem R_matches : forall s ents,
  R s ents -> exists hdr, b_matches_wf (b_data s) (N.of_nat (b_cap s)) ents hdr = true.
Proof. exact SegmentProofs.R_matches. Qed.
Print Assumptions R_matches.

(* ------------------------------------------ link to the entry-level model *)

(* Log.v's available() arithmetic is the byte-level one *)
Theorem avail_agrees : forall s ents prev synced,
  R s ents -> b_available s = s_avail (mkSeg prev (N.of_nat (b_cap s)) ents synced).
Proof. exact SegmentProofs.avail_agrees. Qed.
Print Assumptions avail_agrees.

(* Log.v's segment.get (absolute index prev+i) returns the bytes read from the file *)
Theorem get_agrees : forall s ents prev synced i k,
  R s ents -> 1 <= i -> i + k <= length ents + 1 ->
  seg_get (mkSeg prev (N.of_nat (b_cap s)) ents synced) (prev + N.of_nat i) (N.of_nat k) =
  match b_get s i k with Some b => Ok b | None => Panic end.
Proof. exact SegmentProofs.get_agrees. Qed.
Print Assumptions get_agrees.

(* ----------------------------------------------------------------- examples *)

(* a 64-byte file with two entries appended, not yet synced *)
Definition ex_ents : list bytes := [[1; 2; 3]; [4; 5]]%N.
Definition ex_s : bseg := b_append (b_append (b_fresh 64) [1; 2; 3]%N) [4; 5]%N.

(* the hypotheses of the theorems above are satisfiable by a non-trivial segment *)
Example ex_R : R ex_s ex_ents /\ b_offset ex_s 0 = Some 0%N.
Proof. apply (matches_wf_R ex_s ex_ents 0%N); vm_compute; reflexivity. Qed.

Example ex_fits : (Z.of_nat (length [6; 7; 8; 9]%N) <= b_available ex_s)%Z.
Proof. vm_compute. discriminate. Qed.

(* the file: entries at the bottom, slots 3,2,1,0 = 5,3,0,0 at the top *)
Example ex_image :
  b_data ex_s =
  ([1; 2; 3; 4; 5] ++ repeat 0 27 ++
   [5;0;0;0;0;0;0;0] ++ [3;0;0;0;0;0;0;0] ++ [0;0;0;0;0;0;0;0] ++ [0;0;0;0;0;0;0;0])%N.
Proof. vm_compute. reflexivity. Qed.

Example ex_get : b_get ex_s 1 1 = Some [1; 2; 3]%N /\ b_get ex_s 2 1 = Some [4; 5]%N /\
                 b_get ex_s 1 2 = Some [1; 2; 3; 4; 5]%N /\ b_get ex_s 3 0 = Some [].
Proof. vm_compute. repeat split; reflexivity. Qed.

(* reopened before sync: nothing; after sync: both entries *)
Example ex_open :
  b_open (b_data ex_s) = Some (mkB (b_data ex_s) 0 0) /\
  b_open (b_data (b_sync_header ex_s)) = Some (mkB (b_data (b_sync_header ex_s)) 2 5).
Proof. vm_compute. split; reflexivity. Qed.

(* after removeGTE the dropped entry is still in the gap; the image matches the
   shorter list, and a read beyond n returns the STALE entry, not an error:
   get out of range is unspecified (Log.Get never asks: it checks lastIndex) *)
Example ex_stale_read :
  let s := b_remove_gte (b_sync_header ex_s) 1 in
  b_n s = 1 /\ b_size s = 3 /\
  b_matches (b_data s) 64 [[1; 2; 3]]%N 1 = true /\
  b_get s 2 1 = Some [4; 5]%N /\      (* stale *)
  b_get s 3 1 = None /\               (* slot 4 = 0 < slot 3 = 5 *)
  b_get s 7 1 = None.                 (* slot 8 is outside the file *)
Proof. vm_compute. repeat split; reflexivity. Qed.

(* why the available() test matters: a fresh 40-byte file has 16 bytes
   available; appending 17 bytes lets setOffset overwrite the entry's last
   byte (7 becomes 17, the low byte of the new slot 2) *)
Example ex_overflow :
  b_available (b_fresh 40) = 16%Z /\
  b_get (b_append (b_fresh 40) (repeat 7%N 17)) 1 1 = Some (repeat 7%N 16 ++ [17%N]).
Proof. vm_compute. split; reflexivity. Qed.
