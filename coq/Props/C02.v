(* C02  Committed entries are never lost: leader completeness and commit stability.
   Statements only; the model (step relation, Reachable) is Abs/Raft.v, the
   proofs are in Abs/RaftThms.v on top of the inductive invariants of
   Abs/RaftVotes.v (votes), Abs/RaftLog.v (logs) and Abs/RaftSafe.v (commit).

   The model covers every cluster size (V is any voter list), every
   interleaving, loss / arbitrary delay / duplication / reordering of append
   requests (also after their sender was deposed), stale leaders that keep
   appending, sending and committing, step-downs, crash + restart losing the
   unflushed log tail and the volatile commit index; nothing is bounded.

   [committed s] is a ghost history: (tc, i, e) is recorded when the leader of
   term tc advances its commit index to or beyond i (entry e at index i), and
   when a follower advances its commit index while processing a request of
   term tc.  Indices are 1-based, list positions are index - 1. *)
From Coq Require Import List NArith Lia.
From Verif Require Import Abs.Quorum Abs.RaftBase Abs.Raft Abs.RaftThms Abs.RaftRun.
Import ListNotations.
Open Scope N_scope.

(* Leader completeness: an entry committed in term tc is in the log of every
   leader elected in a later term, at the moment of its election. *)
Theorem leader_completeness :
  forall V s tc i e t n L,
    Reachable V s -> In (tc, i, e) (committed s) -> In (t, n, L) (elected s) -> tc < t ->
    nth_error L (i - 1) = Some e.
Proof. exact RaftThms.leader_completeness. Qed.
Print Assumptions leader_completeness.

(* ... and in the current log of whoever is in role Leader with a term >= tc
   (a stale Leader of a smaller term is not concerned) *)
Theorem leader_holds_committed :
  forall V s tc i e l,
    Reachable V s -> In (tc, i, e) (committed s) -> role (st s l) = Leader ->
    tc <= cur (st s l) -> nth_error (log (st s l)) (i - 1) = Some e.
Proof. exact RaftThms.leader_holds_committed. Qed.
Print Assumptions leader_holds_committed.

(* the term of a committed entry is at most the term in which it was committed *)
Theorem committed_term_le :
  forall V s tc i e, Reachable V s -> In (tc, i, e) (committed s) ->
    eterm e <= tc /\ (1 <= i)%nat.
Proof. exact RaftThms.committed_term_le. Qed.
Print Assumptions committed_term_le.

(* (a) the committed entry is a function of the index, whoever committed it, whenever *)
Theorem committed_unique :
  forall V s tc1 tc2 i e1 e2,
    Reachable V s -> In (tc1, i, e1) (committed s) -> In (tc2, i, e2) (committed s) -> e1 = e2.
Proof. exact RaftThms.committed_unique. Qed.
Print Assumptions committed_unique.

(* the histories only grow, so all of the above holds for ever after *)
Theorem committed_mono :
  forall V s s', step V s s' -> incl (committed s) (committed s').
Proof. exact RaftThms.committed_mono. Qed.
Print Assumptions committed_mono.

Theorem elected_mono :
  forall V s s', step V s s' -> incl (elected s) (elected s').
Proof. exact RaftThms.elected_mono. Qed.
Print Assumptions elected_mono.

(* (b) no step - crash + restart included - changes the log of a node at an
   index at or below that node's commit index *)
Theorem commit_stable :
  forall V s s' n i,
    Reachable V s -> step V s s' -> (1 <= i <= commit (st s n))%nat ->
    nth_error (log (st s' n)) (i - 1) = nth_error (log (st s n)) (i - 1).
Proof. exact RaftThms.commit_stable. Qed.
Print Assumptions commit_stable.

(* (c) whatever a node holds at or below its commit index is recorded as
   committed (in a term the node has reached), and is on its stable storage *)
Theorem node_commit_recorded :
  forall V s n i e,
    Reachable V s -> (1 <= i <= commit (st s n))%nat ->
    nth_error (log (st s n)) (i - 1) = Some e ->
    exists tc, tc <= cur (st s n) /\ In (tc, i, e) (committed s).
Proof. exact RaftThms.node_commit_recorded. Qed.
Print Assumptions node_commit_recorded.

Theorem commit_le_flushed :
  forall V s n, Reachable V s ->
    (commit (st s n) <= flushed (st s n) /\ flushed (st s n) <= length (log (st s n)))%nat.
Proof. exact RaftThms.commit_le_flushed. Qed.
Print Assumptions commit_le_flushed.

(* ---- why leader completeness mentions the term of the COMMIT ----
   The variant "every leader of a term greater than the term OF THE ENTRY holds
   it" is false for Raft (Figure 8 of the Raft paper) and false in this model:
   in run8 the entry (2,5) is committed at index 1 by the leader of term 4,
   while the leader of term 3, elected before, has an empty log. *)
Example entry_term_variant_refuted :
  exists s tc i e t n L,
    Reachable V3 s /\ In (tc, i, e) (committed s) /\ In (t, n, L) (elected s) /\
    eterm e < t /\ nth_error L (i - 1) <> Some e.
Proof.
  exists run8, 4, 1%nat, (2, 5), 3, 3, [].
  destruct run8_facts as [Hr [Hc He]].
  split; [exact Hr|]. rewrite Hc, He. simpl.
  split; [left; reflexivity|]. split; [right; left; reflexivity|].
  split; [reflexivity | discriminate].
Qed.
Print Assumptions entry_term_variant_refuted.

(* non-vacuity: reachable states with committed entries, several elections, a
   follower that learnt the commit, a crash that lost an uncommitted tail *)
Example hypotheses_satisfiable :
  NoDup V3 /\ Reachable V3 run_committed /\ Reachable V3 run_followers /\
  Reachable V3 run_crashed /\ Reachable V3 run8 /\
  elected run_committed = [(2, 1, [])] /\
  committed run_committed = [(2, 1%nat, (2, 0))] /\
  commit (st run_committed 1) = 1%nat /\ commit (st run_followers 2) = 1%nat /\
  log (st run_crashed 1) = [(2, 0)] /\
  committed run8 = [(4, 1%nat, (2, 5)); (4, 2%nat, (4, 6))] /\
  elected run8 = [(4, 1, [(2, 5)]); (3, 3, []); (2, 1, [])].
Proof.
  destruct run8_facts as [H8 [H8c H8e]].
  split; [exact (proj1 run_facts)|]. split; [exact reachable_run_committed|].
  split; [exact reachable_run_followers|]. split; [exact reachable_run_crashed|].
  split; [exact H8|].
  rewrite H8c, H8e. vm_compute. repeat split; reflexivity.
Qed.
Print Assumptions hypotheses_satisfiable.
