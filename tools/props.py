"""Per-property pipelines.  Each entry of REGISTRY names the correspondence it
runs (the tie between the Coq model and /repo's working tree) and the function
that generates cases on the implementation, evaluates the model on them inside
Coq, and searches for a concrete failing input."""
import glob
import json
import os
import sys

import vlib

REGISTRY = {}


def register(pid, **kw):
    REGISTRY[pid] = kw


def replay(pid, path):
    obj = json.load(open(path))
    print(json.dumps(obj, indent=1)[:4000])
    fn = REGISTRY[pid].get("replay")
    if fn:
        return fn(obj)
    return 0


def eval_cases(wd, pattern, meta, pid, kind):
    """Run every generated case file, map mismatching ids back to descriptions."""
    files = sorted(glob.glob(os.path.join(wd, pattern)))
    res = vlib.run_case_files(files)
    viols, broken = [], None
    for f in files:
        ok, ids, log = res[f]
        if not ok:
            broken = "model evaluation failed on %s: %s" % (os.path.basename(f), log[-1200:])
            continue
        for i in ids[:20]:
            d = meta.get("desc", {}).get(str(i), "?")
            viols.append({"signature": "%s-mismatch %s" % (kind, d.split(" ")[0] + " " + (d.split(" ")[1] if " " in d else "")),
                          "detail": "model and implementation disagree on case %d: %s" % (i, d), "found": True,
                          "replay": {"property": pid, "kind": kind + "-correspondence", "case_id": i, "case": d,
                                     "case_file": f, "how": "coqc evaluates Verif.*.Cases.mismatches on the file; the "
                                     "listed id is the disagreeing case (Go result is inside the file)"}})
    return viols, broken


# ------------------------------------------------------------------ C18

def run_c18(pid, tier, seed):
    wd = vlib.workdir(pid)
    rounds = 6 if tier == "quick" else 60
    args = ["raft", "codec", seed, rounds, wd] + (["big"] if tier == "thorough" else [])
    rc, out = vlib.vh(args, timeout=1200)
    if rc != 0:
        return {"tie_broken": "vh raft codec failed: " + out[-1500:]}
    meta = json.load(open(os.path.join(wd, "codec_meta.json")))
    viols, broken = eval_cases(wd, "cases_codec_*.v", meta, pid, "codec")
    for p in meta.get("panics") or []:
        viols.append({"signature": "codec-panic " + p.split(":")[0], "detail": p, "found": True,
                      "replay": {"property": pid, "kind": "panic-or-error in real codec", "what": p}})
    dist = meta["dist"]
    cov = {"evaluations": meta["cases"], "distinct_nontrivial": sum(1 for k, v in dist.items() if v > 0 and not k.startswith("dec-prefix")) +
           sum(v for k, v in dist.items() if k.startswith("enc/") or k.startswith("tenc/")),
           "rule": "values generated per message kind from one PRNG (boundary integers incl. >=2^63, empty/long strings, 0..5 nodes, "
                   "every task error kind); each value is Go-encoded and compared byte-for-byte with the model encoder, Go-decoded with a random "
                   "tail, on every proper prefix (sampled when >120 bytes) and on mutated (malformed) copies, and compared with the model decoder "
                   "(value and number of unread bytes). distinct_nontrivial = number of distinct generated values that were encoded "
                   "+ number of distinct (bucket) kinds exercised",
           "samples": meta["samples"], "distribution": dist, "case_files": meta["files"]}
    return {"violations": viols, "coverage": cov, "tie_broken": broken}


register("C18", run=run_c18, tie="coq/Codec/Cases.v vs messages.go/config.go/task.go/client.go/snapshots.go/value.go",
         assumptions=["values handed to encode satisfy Go's own type bounds (uint64/uint8 fields, len < 2^32)",
                      "Config.Nodes / Info.Followers are maps: compared as sets of bindings; the wire order is any permutation"],
         trusted=["boolean equalities msg_eqb/taskres_eqb of Codec/Cases.v (unproved, used only to compare model and Go results)"],
         level_text="Theorems: round trip + exact framing, truncation is an error, decoders are prefix-closed on arbitrary input, "
                    "task-response kinds, value-file round trip for all 64-bit pairs; all proved for every value (no bound). "
                    "Tie: differential execution of the real encode/decode methods against the model on generated values.")


# ------------------------------------------------------------------ C13

def run_c13(pid, tier, seed):
    wd = vlib.workdir(pid)
    nseq, nops = (70, 40) if tier == "quick" else (1200, 60)
    rc, out = vlib.vh(["log", "ops", seed, nseq, nops, wd], timeout=1800)
    if rc != 0:
        return {"tie_broken": "vh log ops failed: " + out[-1500:]}
    meta = json.load(open(os.path.join(wd, "log_meta.json")))
    viols, broken = eval_cases(wd, "cases_log_*.v", meta, pid, "log")
    for e in meta.get("errors") or []:
        viols.append({"signature": "log-error " + e.split(":")[1].strip()[:30] if ":" in e else e[:30], "detail": e, "found": True,
                      "replay": {"property": pid, "kind": "unexpected error from the real log package", "what": e, "seed": seed}})
    cov = {"evaluations": meta["cases"], "distinct_nontrivial": meta["distinct_states"],
           "rule": "random operation sequences (append with sizes 0 / small / half / exactly-fitting / beyond an empty segment / beyond the "
                   "segment size, Commit, CommitN, RemoveLTE/RemoveGTE/Reset at indices around segment boundaries, close+reopen with another "
                   "segment size, views read while appends continue, reads incl. out-of-range) on the real package in a scratch directory; every "
                   "step is compared from the implementation's own pre-state: outcome + full post-state (segments, capacities, entries, synced) "
                   "and every read result. distinct_nontrivial = number of distinct pre-states (whole-log dumps) visited",
           "samples": meta["samples"], "distribution": meta["dist"], "case_files": meta["files"]}
    return {"violations": viols, "coverage": cov, "tie_broken": broken}


register("C13", run=run_c13, tie="coq/SegLog/Cases.v vs log/log.go, log/segment.go, log/util.go",
         assumptions=["no I/O errors from the file system", "views are read only while the writer appends/commits (the documented contract of ViewAt)",
                      "single-threaded harness: Go-memory-model visibility of concurrent view reads is outside the model"],
         trusted=["boolean equalities of SegLog/Cases.v", "state dump dumpLog (go/inlog/ops.go): reads the offset table of each mapped segment"],
         level_text="Theorems (every operation sequence, entry size, segment size, index): the segment chain stays well formed and each "
                    "operation moves the abstract sequence as specified; reads agree with the sequence; GetN concatenates across segments; "
                    "RemoveLTE removes whole segments up to CanLTE, never beyond i; a view's reads are unchanged by later appends. "
                    "Tie: per-step differential execution against the real package.")
