"""Per-property pipelines.  Each entry of REGISTRY names the correspondence it
runs (the tie between the Coq model and /repo's working tree) and the function
that generates cases on the implementation, evaluates the model on them inside
Coq, and searches for a concrete failing input."""
import glob
import json
import os
import sys

import vlib
import skeleton

REGISTRY = {}


def skeleton_drift():
    d = skeleton.drift()
    if d:
        return ("the simulator re-implements control flow of functions whose text changed since the harness was written "
                "(the per-event tie no longer covers what they do): " + "; ".join(d))
    return None


def register(pid, **kw):
    REGISTRY[pid] = kw


def replay(pid, path):
    obj = json.load(open(path))
    print(json.dumps(obj, indent=1)[:4000])
    fn = REGISTRY[pid].get("replay")
    if fn:
        return fn(obj)
    return 0


def died(out):
    """What to say when a driver process died: the STALL line of the watchdog or the panic line, then the tail."""
    for line in out.split("\n"):
        if line.startswith("STALL:") or line.startswith("panic:") or line.startswith("fatal error:"):
            return line[:400] + " ... " + out[-600:]
    return out[-1500:]


def eval_cases(wd, pattern, meta, pid, kind):
    """Run every generated case file, map mismatching ids back to descriptions."""
    files = sorted(glob.glob(os.path.join(wd, pattern)))
    res = vlib.run_case_files(files)
    viols, broken = [], None
    for f in files:
        ok, ids, log = res[f]
        if not ok:
            broken = "model evaluation failed on %s: %s" % (os.path.basename(f), log[-1200:])
            continue
        for i in ids[:20]:
            d = meta.get("desc", {}).get(str(i), "?")
            viols.append({"signature": "%s-mismatch %s" % (kind, d.split(" ")[0] + " " + (d.split(" ")[1] if " " in d else "")),
                          "detail": "model and implementation disagree on case %d: %s" % (i, d), "found": True,
                          "replay": {"property": pid, "kind": kind + "-correspondence", "case_id": i, "case": d,
                                     "case_file": f, "how": "coqc evaluates Verif.*.Cases.mismatches on the file; the "
                                     "listed id is the disagreeing case (Go result is inside the file)"}})
    return viols, broken


# ------------------------------------------------------------------ C18

def run_c18(pid, tier, seed):
    wd = vlib.workdir(pid)
    rounds = 6 if tier == "quick" else 60
    args = ["raft", "codec", seed, rounds, wd] + (["big"] if tier == "thorough" else [])
    rc, out = vlib.vh(args, timeout=1200)
    if rc != 0:
        return {"tie_broken": "vh raft codec failed: " + out[-1500:]}
    meta = json.load(open(os.path.join(wd, "codec_meta.json")))
    viols, broken = eval_cases(wd, "cases_codec_*.v", meta, pid, "codec")
    for p in meta.get("panics") or []:
        viols.append({"signature": "codec-panic " + p.split(":")[0], "detail": p, "found": True,
                      "replay": {"property": pid, "kind": "panic-or-error in real codec", "what": p}})
    dist = meta["dist"]
    chk = None
    if tier == "thorough":
        ok, axioms, log = vlib.coqchk()
        chk = {"coqchk_ok": ok, "coqchk_axioms": axioms}
        if not ok:
            viols.append({"signature": "coqchk", "detail": "coqchk does not accept the compiled development or reports axioms: %s\n%s" % (axioms, log[-800:]),
                          "found": False, "replay": {"property": pid, "kind": "proof-broken", "theorem_or_correspondence": "coqchk over coq/Props/*.vo",
                                                     "detail": log[-2000:]}})
    cov = {"evaluations": meta["cases"], "distinct_nontrivial": sum(1 for k, v in dist.items() if v > 0 and not k.startswith("dec-prefix")) +
           sum(v for k, v in dist.items() if k.startswith("enc/") or k.startswith("tenc/")),
           "rule": "values generated per message kind from one PRNG (boundary integers incl. >=2^63, empty/long strings, 0..5 nodes, "
                   "every task error kind); each value is Go-encoded and compared byte-for-byte with the model encoder, Go-decoded with a random "
                   "tail, on every proper prefix (sampled when >120 bytes) and on mutated (malformed) copies, and compared with the model decoder "
                   "(value and number of unread bytes). distinct_nontrivial = number of distinct generated values that were encoded "
                   "+ number of distinct (bucket) kinds exercised",
           "samples": meta["samples"], "distribution": dist, "case_files": meta["files"]}
    if chk:
        cov.update(chk)
    return {"violations": viols, "coverage": cov, "tie_broken": broken}


register("C18", run=run_c18, tie="coq/Codec/Cases.v vs messages.go/config.go/task.go/client.go/snapshots.go/value.go",
         assumptions=["values handed to encode satisfy Go's own type bounds (uint64/uint8 fields, len < 2^32)",
                      "Config.Nodes / Info.Followers are maps: compared as sets of bindings; the wire order is any permutation"],
         trusted=["boolean equalities msg_eqb/taskres_eqb of Codec/Cases.v (unproved, used only to compare model and Go results)"],
         level_text="Theorems: round trip + exact framing, truncation is an error, decoders are prefix-closed on arbitrary input, "
                    "task-response kinds, value-file round trip for all 64-bit pairs; all proved for every value (no bound). "
                    "Tie: differential execution of the real encode/decode methods against the model on generated values.")


# ------------------------------------------------------------------ C13

def run_c13(pid, tier, seed):
    wd = vlib.workdir(pid)
    nseq, nops = (70, 40) if tier == "quick" else (1200, 60)
    rc, out = vlib.vh(["log", "ops", seed, nseq, nops, wd], timeout=1800)
    if rc != 0:
        return {"tie_broken": "vh log ops failed: " + out[-1500:]}
    meta = json.load(open(os.path.join(wd, "log_meta.json")))
    viols, broken = eval_cases(wd, "cases_log_*.v", meta, pid, "log")
    for e in meta.get("errors") or []:
        viols.append({"signature": "log-error " + e.split(":")[1].strip()[:30] if ":" in e else e[:30], "detail": e, "found": True,
                      "replay": {"property": pid, "kind": "unexpected error from the real log package", "what": e, "seed": seed}})
    cov = {"evaluations": meta["cases"], "distinct_nontrivial": meta["distinct_states"],
           "rule": "random operation sequences (append with sizes 0 / small / half / exactly-fitting / beyond an empty segment / beyond the "
                   "segment size, Commit, CommitN, RemoveLTE/RemoveGTE/Reset at indices around segment boundaries, close+reopen with another "
                   "segment size, views read while appends continue, reads incl. out-of-range) on the real package in a scratch directory; every "
                   "step is compared from the implementation's own pre-state: outcome + full post-state (segments, capacities, entries, synced) "
                   "and every read result. distinct_nontrivial = number of distinct pre-states (whole-log dumps) visited",
           "samples": meta["samples"], "distribution": meta["dist"], "case_files": meta["files"]}
    return {"violations": viols, "coverage": cov, "tie_broken": broken}


register("C13", run=run_c13, tie="coq/SegLog/Cases.v vs log/log.go, log/segment.go, log/util.go",
         assumptions=["no I/O errors from the file system", "views are read only while the writer appends/commits (the documented contract of ViewAt)",
                      "single-threaded harness: Go-memory-model visibility of concurrent view reads is outside the model"],
         trusted=["boolean equalities of SegLog/Cases.v", "state dump dumpLog (go/inlog/ops.go): reads the offset table of each mapped segment"],
         level_text="Theorems (every operation sequence, entry size, segment size, index): the segment chain stays well formed and each "
                    "operation moves the abstract sequence as specified; reads agree with the sequence; GetN concatenates across segments; "
                    "RemoveLTE removes whole segments up to CanLTE, never beyond i; a view's reads are unchanged by later appends. "
                    "Tie: per-step differential execution against the real package.")


# ------------------------------------------------------------------ node-model properties

# which events a property's theorems speak about (a disagreement between model and code on one of
# these breaks the tie for that property); monitor tags the property owns
NODE_PROPS = {
 "C01": dict(events={"EVoteReq", "EVoteResult", "ETimeout", "ETimeoutNowReq", "ERestart", "LReplUpdate", "EAppendReq", "EAppendReqCut"}, tags={"C01", "C05"}),
 "C02": dict(events={"EAppendReq", "EAppendReqCut", "ESnapReq", "LClient", "LReplUpdate", "LFlrSend", "LFlrResp", "EVoteReq", "ERestart", "LFlrSnapInstalled", "LChangeConfig"}, tags={"C02"}),
 "C03": dict(events={"EAppendReq", "EAppendReqCut", "ESnapReq", "LClient", "LReplUpdate", "ERestart", "ESnapRun"}, tags={"C03"}),
 "C04": dict(events={"EAppendReq", "EAppendReqCut", "LFlrSend", "LClient", "ESnapReq", "ERestart"}, tags={"C04"}),
 "C05": dict(events={"EVoteReq", "EVoteResult", "ETimeout", "ETimeoutNowReq", "ERestart", "LReplUpdate", "ETask"}, tags={"C05"}),
 "C06": dict(events={"LReplUpdate", "LFlrResp", "EAppendReq", "EAppendReqCut", "LClient", "LChangeConfig"}, tags={"C06"}),
 "C07": dict(events={"LClient", "ETask", "LReplUpdate", "LTransfer"}, tags={"C07"}),
 "C08": dict(events={"LChangeConfig", "LReplUpdate", "LClient", "EAppendReq", "EAppendReqCut", "LTransferTimeout", "ERestart"}, tags={"C08"}),
 "C09": dict(events={"ESnapRun", "ESnapTaken", "ETask", "ESnapReq", "LFlrSnapInstalled", "LFlrUpdate", "LFlrSend", "ERestart", "LReplUpdate",
                     "EVoteResult", "ETimeout", "ETimeoutNowReq"}, tags={"C09"}),  # becoming leader initialises the compaction boundary and the views
 "C11": dict(events={"ETimeout", "ETimeoutNowReq", "ETask", "LReplUpdate", "LChangeConfig", "EAppendReq", "EAppendReqCut", "LClient"}, tags={"C11"}),
 "C12": dict(events={"ESnapRun", "ESnapTaken", "ETask", "ESnapReq", "ERestart", "LReplUpdate", "LChangeConfig", "LClient"}, tags={"C12"}),  # a pending label must survive them
 "C15": dict(events=None, tags={"C15"}),
 "C16": dict(events={"LTransfer", "LTimeoutNowResult", "LTransferTimeout", "LNewTermTimeout", "ETimeoutNowReq", "LClient", "LReplUpdate", "LChangeConfig",
                     "EVoteReq", "ETimeout", "EVoteResult"}, tags={"C16"}),  # the target's election (transfer flag in its vote requests) is part of the transfer
 "C17": dict(events={"EVoteReq", "EAppendReq", "EAppendReqCut", "ESnapReq", "ETimeoutNowReq", "LFlrResp", "LFlrSend", "ETimeout", "LReplUpdate", "LTransferTimeout", "LTimeoutNowResult", "LNewTermTimeout"}, tags={"C17"}),  # a failed transfer must leave the leader able to go on
 "C19": dict(events=None, tags={"C19"}),
}


def event_kind(desc_case_line):
    return desc_case_line


ABS_PROPS = {"C01", "C02", "C03", "C04", "C05", "C06", "C09"}
REPLPAIR_PROPS = {"C02", "C03", "C06", "C15"}   # real replication goroutine against a real follower
CFG_PROPS = {"C01", "C02", "C03", "C04", "C06", "C07", "C08", "C09", "C11"}   # histories with membership changes, crashes and snapshots against Abs/CfgRaft.v
ABS_CODES = {1: "no projection listed for the event's node", 2: "observed projections differ from the abstract state after the event",
             10: "election started by node 0", 11: "election started by a node that is leader",
             20: "vote granted to candidate 0", 21: "vote granted for an election nobody started", 22: "vote granted although the voter "
             "already voted for another candidate in that term (or the term is older)", 23: "vote granted to a candidate whose log is not up to date",
             30: "vote answer counted by a node that is not candidate", 31: "vote of a non-voter counted", 32: "vote counted that was never granted "
             "for this term", 33: "vote of one voter counted twice", 40: "append request written by a non-leader", 41: "append request with prevLogIndex "
             "beyond the leader's log", 42: "append request announces a commit index beyond the leader's", 43: "append request is not a slice of the "
             "leader's log (term, prevLogTerm or entries differ)", 50: "append request delivered that no leader sent", 51: "leader handled its own request",
             60: "acknowledgement handled by a non-leader", 61: "acknowledgement handled that no follower gave (term, follower, match index)",
             70: "became leader without a majority of counted votes", 80: "commit index beyond the log", 81: "leader committed an entry of an older term directly",
             82: "leader advanced the commit index without acknowledgements of a majority of voters", 90: "flushed index beyond the log",
             95: "node restarted with a commit index it did not have", 100: "leader installed its own snapshot", 101: "snapshot of an older term installed",
             102: "snapshot from a node that was never elected in that term", 103: "snapshot does not stand for a prefix of its leader's log",
             104: "snapshot contains entries not acknowledged by a majority (not committed)", 105: "commit index after installation outside [old commit, snapshot index]"}


CFG_CODES = {1: "the observed term differs from the abstract node's", 2: "the observed log differs from the abstract node's",
             3: "the observed commit index is ahead of the abstract node's", 4: "a node observed as leader/candidate is not one in the abstract state"}


def cfg_code(why):
    if why >= 1000:
        return "action #%d of the event is not enabled in the abstract protocol (guard of Abs/CfgRaft.v fails)" % (why - 1000)
    return "%s (observation #%d of the event)" % (CFG_CODES.get(why % 10, "code %d" % why), why // 10)


def run_abs(pid, tier, seed, wd, drv="abs"):
    """Cluster-level tie: observed histories of real nodes must be runs of the abstract protocol (coq/Abs/Exec.v for static voters with
    crashes and snapshots; coq/Abs/CfgExec.v for membership-changing runs), both proved sound."""
    import re
    import shutil
    if drv == "abs":
        nseq, nsteps = (16, 700) if tier == "quick" else (240, 1500)
    else:
        nseq, nsteps = (14, 500) if tier == "quick" else (200, 900)
    codes = (lambda w: ABS_CODES.get(w, "code %d" % w)) if drv == "abs" else cfg_code
    checker = "Abs/Exec.v" if drv == "abs" else "Abs/CfgExec.v"
    rc, out = vlib.vh(["raft", drv, seed, nseq, nsteps, wd], timeout=3000)
    if rc != 0:
        return [{"signature": "harness-died abs", "detail": died(out), "found": True,
                 "replay": {"property": pid, "kind": "process died while driving the real code", "driver": drv, "output_tail": out[-3000:]}}], None, {}
    meta = json.load(open(os.path.join(wd, drv + "_meta.json")))
    files = sorted(glob.glob(os.path.join(wd, "cases_%s_*.v" % drv)))
    viols, broken, accepted = [], None, 0

    def ev(f):
        rc, out = vlib.sh("coqc -R %s Verif -Q . Cases %s" % (vlib.COQ, os.path.basename(f)), cwd=wd, timeout=1800)
        return rc, out
    import concurrent.futures as cf
    with cf.ThreadPoolExecutor(max_workers=16) as ex:
        results = list(ex.map(ev, files))
    for f, (rc, out) in zip(files, results):
        if rc != 0 or "R =" not in out:
            broken = "model evaluation failed on %s: %s" % (os.path.basename(f), out[-1200:])
            continue
        for run_id, k1, why in re.findall(r"\(\s*(\d+)%nat,\s*\(\s*(\d+)%nat,\s*(\d+)%nat\s*\)\s*\)", out):
            run_id, k1, why = int(run_id), int(k1), int(why)
            if k1 == 0:
                accepted += 1
                continue
            idx = k1 - 1
            src = os.path.join(wd, "%s_run_%d.txt" % (drv, run_id))
            evs = open(src).read().split("\n") if os.path.exists(src) else []
            keep = os.path.join(vlib.ROOT, "replays", "%s_%s_run_%d_seed%s.txt" % (pid, drv, run_id, seed))
            os.makedirs(os.path.dirname(keep), exist_ok=True)
            if os.path.exists(src):
                shutil.copyfile(src, keep)
            viols.append({"signature": "%s-refinement %s" % (drv, codes(why).split(" (")[0]), "found": True,
                          "detail": "%s: event #%d is not a step of the abstract protocol: %s; event: %s" % (
                              meta["desc"].get(str(run_id)), idx, codes(why), evs[idx][:600] if idx < len(evs) else "?"),
                          "replay": {"property": pid, "kind": "observed history of real nodes rejected by " + checker, "run": run_id, "seed": seed,
                                     "event_index": idx, "reason_code": why, "reason": codes(why), "event": evs[idx] if idx < len(evs) else None,
                                     "history_file": keep, "case_file": f,
                                     "how": "vh raft %s %s %s %s <dir>; coqc evaluates the history checker on it" % (drv, seed, nseq, nsteps)}})
    if broken is None and accepted + len(viols) != len(meta["desc"]):
        broken = "abstract tie: %d histories written, %d results read back" % (len(meta["desc"]), accepted + len(viols))
    for e in meta.get("errors") or []:
        viols.append({"signature": "driver-error " + e[:40], "detail": e, "found": True, "replay": {"property": pid, "kind": "driver error", "what": e}})
    cov = {drv + "_histories": len(meta["desc"]), drv + "_histories_accepted": accepted, drv + "_events": meta["events"], drv + "_distribution": meta["dist"],
           drv + "_samples": (meta["samples"] or [])[:2]}
    return viols, broken, cov


def run_node(pid, tier, seed):
    spec = NODE_PROPS[pid]
    wd = vlib.workdir(pid)
    # the corpus of targeted schedules runs first, then the random drivers
    if tier == "quick":
        plan = [("scenarios", []), ("cluster", [seed, 8, 250]), ("node1", [seed, 16, 40]), ("leader1", [seed, 10, 120])]
    else:
        plan = [("scenarios", []), ("cluster", [seed, 160, 400]), ("node1", [seed, 300, 60]), ("leader1", [seed, 200, 200])]
    metas, broken, viols = {}, None, []
    for drv, args in plan:
        rc, out = vlib.vh(["raft", drv] + (args + [wd] if drv != "scenarios" else [wd, seed]), timeout=3000)
        if rc != 0:
            # the harness itself died (e.g. SIGSEGV through an unmapped segment): that is a finding for C15/C09
            sig = "harness-died " + drv
            viols.append({"signature": sig, "detail": died(out), "found": True,
                          "replay": {"property": pid, "kind": "process died while driving the real code", "driver": drv, "args": args,
                                     "output_tail": out[-3000:]}})
            continue
        metas[drv] = json.load(open(os.path.join(wd, drv + "_meta.json")))
    total, states, dist, samples = 0, 0, {}, []
    for drv, meta in metas.items():
        total += meta["cases"]
        states += meta["distinct_states"]
        for k, v in meta["dist"].items():
            dist[drv + ":" + k] = v
        samples += meta["samples"][:2]
        files = sorted(glob.glob(os.path.join(wd, "cases_%s_*.v" % drv)))
        res = vlib.run_case_files(files)
        for f in files:
            ok, ids, log = res[f]
            if not ok:
                broken = "model evaluation failed on %s: %s" % (os.path.basename(f), log[-1200:])
                continue
            for i in ids:
                d = meta["desc"].get(str(i), "?")
                kind = meta.get("kinds", {}).get(str(i))
                if spec["events"] is not None and kind is not None and kind not in spec["events"]:
                    continue
                viols.append({"signature": "node-mismatch %s" % (kind or d), "found": True,
                              "detail": "model and implementation disagree on case %d (%s)" % (i, d),
                              "replay": {"property": pid, "kind": "node-correspondence", "case_id": i, "case": d, "case_file": f,
                                         "event": kind, "how": "coqc evaluates Verif.Node.Cases.mismatches (and explain_all) on the file"}})
        for fnd in meta.get("findings") or []:
            prop, sig, detail, trace = (fnd.split("|", 3) + ["", "", ""])[:4]
            if prop in spec["tags"]:
                viols.append({"signature": "monitor %s" % sig, "detail": detail, "found": True,
                              "replay": {"property": pid, "kind": "monitor on the implementation (simulated cluster)", "monitor": sig,
                                         "what": detail, "driver": drv, "seed": seed, "schedule_tail": trace.split(" ; ")}})
        for e in meta.get("errors") or []:
            viols.append({"signature": "driver-error " + e[:40], "detail": e, "found": True,
                          "replay": {"property": pid, "kind": "driver error", "what": e}})
    abs_cov = {}
    if pid in ABS_PROPS:
        av, ab, abs_cov = run_abs(pid, tier, seed, vlib.workdir(pid + "_abs"))
        viols.extend(av)
        broken = broken or ab
    cfg_cov = {}
    if pid in CFG_PROPS:
        cv, cb, cfg_cov = run_abs(pid, tier, seed, vlib.workdir(pid + "_cfg"), drv="cfg")
        viols.extend(cv)
        broken = broken or cb
    # dedupe by signature (keep first 3 of each)
    seen, out = {}, []
    for v in viols:
        k = v["signature"]
        seen[k] = seen.get(k, 0) + 1
        if seen[k] <= 3:
            out.append(v)
    cov = {"evaluations": total, "distinct_nontrivial": states,
           "rule": "events executed on real *Raft values by the deterministic simulator (cluster driver: 1-5 nodes, elections, replication with "
                   "probe/pipeline discipline, loss/duplication/delay, append requests cut by their connection after any number of entries, membership changes, transfers, snapshots, crashes; "
                   "the vote requests delivered are the bytes the candidate's own goroutines wrote; node1 driver: one node "
                   "under adversarial requests with any coordinates; leader1 driver: one real leader whose followers are played by the harness: "
                   "any legal answer, any match index, step-downs, transfers that fail, snapshots in between); each event is compared from the implementation's own pre-state with the "
                   "model: reply, task replies, messages, full post-state. Monitors run on the implementation after every event. "
                   "distinct_nontrivial = distinct pre-states (full node dumps)",
           "samples": samples[:4], "distribution": dist, "traces_validated_against_impl": total}
    broken = broken or skeleton_drift()
    if pid == "C01":
        # the candidate counts a reply for the round in which it reads it: replies must be paired with requests by the pool
        pwd = vlib.workdir(pid + "_pool")
        rc, pout = vlib.vh(["raft", "pool", seed, 6 if tier == "quick" else 200, pwd], timeout=1200)
        if rc != 0:
            broken = broken or ("vh raft pool failed: " + pout[-1500:])
        else:
            pmeta = json.load(open(os.path.join(pwd, "pool_meta.json")))
            pv, pb = eval_cases(pwd, "cases_pool_*.v", pmeta, pid, "pool")
            out.extend(pv[:3])
            broken = broken or pb
            for fnd in pmeta.get("findings") or []:
                prop, sig, detail = (fnd.split("|", 2) + ["", ""])[:3]
                out.append({"signature": "pool-oracle " + sig, "detail": detail, "found": True,
                            "replay": {"property": pid, "kind": "reply pairing on the real connPool", "oracle": sig, "what": detail, "seed": seed}})
            cov["pool_sequences"] = pmeta["cases"]
            cov["rule"] += ("; connection pool: %d scripted request sequences through the real connPool.doRPC against a peer that answers in time, "
                            "late or never, compared with Ident/Pool.v (pool_replies_paired)" % pmeta["cases"])
    if pid in REPLPAIR_PROPS:
        # the real replication goroutine against a real follower (what the simulator only mirrors)
        rwd = vlib.workdir(pid + "_replpair")
        rounds = 12 if tier == "quick" else 240
        rc, rout = vlib.vh(["raft", "replpair", seed, rounds, rwd], timeout=3000)
        if rc != 0:
            out.append({"signature": "harness-died replpair", "detail": died(rout), "found": True,
                        "replay": {"property": pid, "kind": "process died while driving the real code", "driver": "replpair", "output_tail": rout[-3000:]}})
        else:
            rmeta = json.load(open(os.path.join(rwd, "replpair_meta.json")))
            seen_r = {}
            for fnd in rmeta.get("findings") or []:
                prop, sig, detail = (fnd.split("|", 3) + ["", "", ""])[:3]
                seen_r[sig] = seen_r.get(sig, 0) + 1
                if seen_r[sig] <= 2:
                    out.append({"signature": "replpair " + sig, "detail": detail[:1500], "found": True,
                                "replay": {"property": pid, "kind": "oracle on the real replication goroutine against a real follower", "oracle": sig,
                                           "what": detail[:3000], "seed": seed, "cmd": "vh raft replpair %s %s <dir>" % (seed, rounds)}})
            cov["replpair_rounds"] = rmeta.get("rounds")
            cov["replpair_distribution"] = rmeta.get("dist")
            cov["rule"] += ("; replication pair: %s rounds of the real replication goroutine (probe, pipeline writer/reader, draining, pooled connections) of a "
                            "real leader against a real follower held back at chosen moments (answers outstanding when the connection is cut / the "
                            "replication is stopped / the node leads again): every match index the leader records is within the follower's log and "
                            "agrees with it" % rmeta.get("rounds"))
    cov.update(abs_cov)
    if abs_cov:
        cov["rule"] += ("; abstract tie: %d whole-cluster histories (%d events) of the real nodes were checked by "
                        "Abs/Exec.v to be runs of the abstract protocol the safety theorems are proved about (membership is static in these histories; snapshots, "
                        "compaction and snapshot installation are included)" % (abs_cov["abs_histories"], abs_cov["abs_events"]))
    cov.update(cfg_cov)
    if cfg_cov:
        cov["rule"] += ("; abstract tie under membership changes: %d whole-cluster histories (%d events; membership changes, crashes and restarts, snapshots, compaction and snapshot installation) of the real nodes "
                        "were checked by Abs/CfgExec.v to be runs of the abstract protocol with membership changes in the log (Abs/CfgRaft.v) that the "
                        "theorems of Props/C08_abs.v are proved about" % (cfg_cov["cfg_histories"], cfg_cov["cfg_events"]))
    return {"violations": out, "coverage": cov, "tie_broken": broken}


NODE_ASSUME = ["sockets, timers and goroutine scheduling are replaced by the simulator's scheduler (events); the two skeletons it mirrors "
               "(role transitions of stateLoop, probe/pipeline phases of replicate) are modelled, not verified",
               "value.set (rename + directory sync) is atomic; no storage or FSM I/O errors",
               "all nodes of a cluster are bootstrapped with the same configuration; node ids are unique"]
NODE_TRUST = ["state dump (abstraction function) in go/inpkg/sim.go / sim_cluster.go", "boolean equalities and the map-order oracle search of Node/Cases.v"]


def reg_node(pid, level_text, extra_assume=(), extra_props=()):
    register(pid, run=run_node, extra_props=tuple(extra_props), tie="coq/Node/Cases.v vs rpc.go, follower.go, candidate.go, leader.go, config.go, changeconfig.go, "
             "transfer.go, fsm.go, replication.go, storage.go (per-event differential execution)",
             assumptions=NODE_ASSUME + list(extra_assume), trusted=NODE_TRUST, level_text=level_text)


reg_node("C01", "Theorems: election safety for every reachable state of the abstract vote layer (any cluster size, any interleaving of "
         "starts, grants, bumps, step-downs, counts, wins, losses, restarts): at most one elected node per term, every leader was elected, one "
         "vote per (term, voter), every elected node has a majority of recorded votes; two majorities meet. Tie: the node model's vote handlers "
         "(on_vote_request, start_election, on_vote_result, restart) are compared event by event with the real handlers; monitor: two nodes "
         "leader in one term on the simulated cluster.",
         ["Abs/Votes.v and Abs/Raft.v have a static voter set; election safety under membership changes is cfg_election_safety (Props/C08_abs.v, model Abs/CfgRaft.v: membership changes, flush, crash, snapshot installation)"],
         extra_props=["AbsTie.v", "C20.v", "C08_abs.v", "C11_abs.v", "CfgTie.v"])


# ------------------------------------------------------------------ C14

def run_c14(pid, tier, seed):
    wd = vlib.workdir(pid)
    nseq, nops = (4, 24) if tier == "quick" else (60, 40)
    rc, out = vlib.vh(["log", "crash", seed, nseq, nops, wd], timeout=3000)
    if rc != 0:
        return {"violations": [{"signature": "harness-died log crash", "detail": out[-1500:], "found": True,
                                "replay": {"property": pid, "kind": "crash harness died", "output_tail": out[-3000:], "seed": seed}}]}
    meta = json.load(open(os.path.join(wd, "crash_meta.json")))
    viols, broken = eval_cases(wd, "cases_crash_*.v", meta, pid, "crash")
    seen = {}
    for f in meta.get("findings") or []:
        prop, sig, detail = (f.split("|", 2) + ["", ""])[:3]
        seen[sig] = seen.get(sig, 0) + 1
        if seen[sig] <= 3:
            viols.append({"signature": "crash-oracle " + sig, "detail": detail, "found": True,
                          "replay": {"property": pid, "kind": "crash image violates the property on the real log package", "oracle": sig,
                                     "what": detail, "seed": seed, "cmd": "vh log crash %s %s %s <dir>" % (seed, nseq, nops)}})
    cov = {"evaluations": meta["images"], "distinct_nontrivial": meta["cases"],
           "rule": "operation sequences on the real log package; at every verifPoint of every operation and at operation boundaries the "
                   "directory is copied (process-kill image) and 4 power-loss images are built by mixing 4 KiB pages of the last flushed copy "
                   "with the current one (none / only header page / all but header page / random subset); every image is reopened with the real "
                   "Open and (a) judged by the property oracle (reopens, every entry was appended at that index, flushed entries survive) and "
                   "(b) compared with the model's recovery at some non-decreasing crash point (kill) / some crash point and header choice (power "
                   "loss), starting from the implementation's own disk state. evaluations = images reopened; distinct_nontrivial = operations "
                   "with their crash points (LCrash cases)",
           "samples": meta["samples"], "distribution": meta["dist"], "images_failing_open": meta["images_failing_open"],
           "exhaustive_over": "all verifPoints of each executed operation (finite set per operation)"}
    return {"violations": viols, "coverage": cov, "tie_broken": broken}


register("C14", run=run_c14, tie="coq/SegLog/Cases.v (LCrash) vs log/segment.go sync/removeGTE, log/log.go, log/util.go createSegment/openSegments",
         assumptions=["file creation, sizing and unlinking are atomic and durable when they return; msync(MS_SYNC) makes the whole mapping durable; "
                      "pages reach the disk whole (4 KiB)", "no I/O errors"],
         trusted=["crash-image construction in go/inlog/crash.go (directory copies at verifPoints, page mixing)", "boolean equalities of SegLog/Cases.v"],
         level_text="Theorems (every operation sequence, every crash point between two file-system primitives of the next operation, process-kill "
                    "and power-loss with any header-page choice and arbitrary junk beyond the stable data): reopening succeeds with a well-formed "
                    "chain; every recovered entry was appended at that index; everything covered by a completed commit survives unless the "
                    "interrupted operation removes it; at operation boundaries nothing removed comes back. The pre-repair recovery (0-byte "
                    "segment file) is refuted with a witness.")

reg_node("C05", "Theorems (every voter state, every request, every order of events, restarts at any point): a granted reply means term and vote "
         "are the persisted ones; no step of any kind lowers the term or changes a cast vote within a term; along any history at most one "
         "candidate per term and terms never decrease; reported terms lie between the terms before and after the step; the pre-repair handler is refuted.",
         ["(term, votedFor) in the model IS the term file: crash atomicity of its rename is covered by C10's crash images"],
         extra_props=["AbsTie.v", "AbsLink.v"])


# ------------------------------------------------------------------ C20

def run_c20(pid, tier, seed):
    wd = vlib.workdir(pid)
    n = 6 if tier == "quick" else 60
    rc, out = vlib.vh(["raft", "ident", seed, n, wd], timeout=1200)
    if rc != 0:
        return {"tie_broken": "vh raft ident failed: " + out[-1500:]}
    meta = json.load(open(os.path.join(wd, "ident_meta.json")))
    viols, broken = eval_cases(wd, "cases_ident_*.v", meta, pid, "ident")
    for f in meta.get("findings") or []:
        prop, sig, detail = (f.split("|", 2) + ["", ""])[:3]
        viols.append({"signature": "ident-oracle " + sig, "detail": detail, "found": True,
                      "replay": {"property": pid, "kind": "identity/lock oracle on the real code", "oracle": sig, "what": detail, "seed": seed}})
    cov = {"evaluations": meta["cases"] + meta["dist"].get("lock/rounds", 0), "distinct_nontrivial": meta["cases"],
           "rule": "every (dialer cluster, intended target) x (listener cluster, listener node) pair of a small domain plus random 64-bit "
                   "identities: a vote request through the real connPool.doRPC over net.Pipe to the real server.handleConn/replyRPC; observed: "
                   "did it get through, how many non-identity requests reached the handlers; SetIdentity on directories with and without a stored "
                   "identity; 8 concurrent lockDir per round on one directory. distinct_nontrivial = distinct connection/SetIdentity cases",
           "samples": meta["samples"], "distribution": meta["dist"]}
    return {"violations": viols, "coverage": cov, "tie_broken": broken}


register("C20", run=run_c20, tie="coq/Ident/Cases.v vs conn.go getConn/doRPC, server.go handleConn, rpc.go replyRPC (identity), util.go lockDir, storage.go SetIdentity",
         assumptions=["link(2) is an atomic test-and-create", "peers run this library: every connection they use comes from connPool.getConn "
                      "(a hand-crafted client that skips the identity request is outside the property, which speaks of nodes running the library)"],
         trusted=["harness go/inpkg/ident.go (plays the rpcCh case of stateLoop for the listener)"],
         level_text="Theorems (every history of dials to adversarially chosen listeners, handshakes, sends, closes): a non-identity request reaches "
                    "a listener's handlers only over a connection whose listener is the (cluster,node) the dialer intended; a dialer keeps only such "
                    "connections; a held lock refuses every other attempt; a set identity cannot be changed. Tie: real pool/server code over pipes.")


reg_node("C06", "Theorems (node level, every state/input): the commit point the leader computes is matched by a majority of the voters of the "
         "latest configuration, the leader counting itself only as a voter; the cached voter count/flag always describe the latest configuration "
         "(invariant over all leader events; the pre-repair code broke it); commit advances only to that point, beyond the start of the term, after "
         "flushing the leader's own log; a follower answers success only after flushing what it appended and commits only covered, leader-committed, "
         "current-term entries. Cluster-level theorems: Props/C06.v (static voters) and, under membership changes, cfg_committed_durable_on_majority / "
         "cfg_committed_entry_durable (Props/C08_abs.v): in every reachable state of Abs/CfgRaft.v, for every commit a leader ever performed there is a "
         "majority of the configuration in force for that leader whose members hold the committed prefix durably - whatever crashes, truncations, "
         "reconfigurations and installations followed; observed: cfg_observed_commit_durable (Props/CfgTie.v). Monitor: at every commit advance on the "
         "simulated cluster, count the voters that hold the entry flushed.",
         ["NoDup node ids in a configuration (Go map)"], extra_props=["AbsTie.v", "C08_abs.v", "CfgTie.v", "AbsLink.v"])
reg_node("C08", "Theorems: every configuration derived by one action is adjacent (voter sets differ in at most one node) and majorities of adjacent "
         "configurations intersect; a submitted configuration is rejected unless the previous one is committed, an own-term entry is committed, no "
         "voting right changes directly, no node vanishes, new nodes are non-voters and a stable voter remains; actions are carried out only when "
         "canChangeConfig holds (incl. own-term commit: the pre-repair guard is refuted); followers adopt the newest configuration entry. "
         "Cluster level (Props/C08_abs.v on Abs/CfgRaft.v): election safety, log matching, leader completeness, state-machine safety in every "
         "reachable state of the protocol with single-voter membership changes in the log; the variant without the own-term-commit guard is refuted. "
         "Abs/CfgRaft.v also has the durable prefix, flushing, crash/restart and snapshot installation (cfg_commit_le_flushed, cfg_committed_survives_crash); "
         "it is tied to the code by the node-level guard theorems plus the per-event correspondence and by the history checker Abs/CfgExec.v "
         "(histories with membership changes, crashes and snapshots observed on the real nodes must be runs of it).",
         ["NoDup node ids; requests carry consecutive entries"], extra_props=["C08_abs.v", "CfgTie.v"])


# ------------------------------------------------------------------ C10

def run_c10(pid, tier, seed):
    wd = vlib.workdir(pid)
    nseq, nsteps = (10, 250) if tier == "quick" else (200, 400)
    rc, out = vlib.vh(["raft", "crashsim", seed, nseq, nsteps, wd], timeout=3000)
    if rc != 0:
        return {"violations": [{"signature": "harness-died crashsim", "detail": out[-1500:], "found": True,
                                "replay": {"property": pid, "kind": "process died while driving the real code", "output_tail": out[-3000:], "seed": seed}}]}
    meta = json.load(open(os.path.join(wd, "crashsim_meta.json")))
    viols, seen = [], {}
    # the events themselves are also compared with the model (restart cases included)
    files = sorted(glob.glob(os.path.join(wd, "cases_crashsim_*.v")))
    res = vlib.run_case_files(files)
    broken = None
    for f in files:
        ok, ids, log = res[f]
        if not ok:
            broken = "model evaluation failed on %s: %s" % (os.path.basename(f), log[-1200:])
            continue
        for i in ids:
            kind = meta.get("kinds", {}).get(str(i))
            # events whose outcome decides what is on stable storage (what a restart finds): the leader's own flush before it
            # commits is among them
            if kind in ("ERestart", "ESnapReq", "EAppendReq", "EAppendReqCut", "EVoteReq", "ESnapRun", "ESnapTaken", "ETask", "LReplUpdate", "LClient",
                        "LChangeConfig"):
                viols.append({"signature": "node-mismatch %s" % kind, "found": True,
                              "detail": "model and implementation disagree on case %d (%s)" % (i, meta["desc"].get(str(i))),
                              "replay": {"property": pid, "kind": "node-correspondence", "case_id": i, "case_file": f, "event": kind}})
    for fnd in meta.get("findings") or []:
        prop, sig, detail, trace = (fnd.split("|", 3) + ["", "", ""])[:4]
        if prop != "C10":
            continue
        seen[sig] = seen.get(sig, 0) + 1
        if seen[sig] <= 3:
            viols.append({"signature": "monitor " + sig, "detail": detail, "found": True,
                          "replay": {"property": pid, "kind": "crash image of a real node violates the property", "oracle": sig, "what": detail,
                                     "seed": seed, "schedule_tail": trace.split(" ; ")}})
    cov = {"evaluations": meta["images"], "distinct_nontrivial": len([p for p in meta["points"].split() if p]) + meta["cases"],
           "rule": "the cluster simulator and the scenario corpus with crash imaging: while a real node executes an event its storage directory is "
                   "copied at every verifPoint of the raft and log packages (vote/term persisted, bootstrap steps, snapshot before/after publication, "
                   "installation published / log cleared, segment flushes, header lowering, roll-over, segment creation steps, segment removal); every "
                   "copy is restarted with the real New (+ restore) and judged: starts; term/vote not older; flushed entries retained (below what the "
                   "event may legitimately touch); log contiguous with the snapshot; handles an append and a vote request from a newer leader. "
                   "evaluations = crash images restarted; distinct_nontrivial = distinct crash points + events executed",
           "samples": [meta["points"]] + meta["samples"][:2], "distribution": meta["dist"], "image_failures": meta["image_failures"],
           "exhaustive_over": "all verifPoints fired by each imaged event"}
    return {"violations": viols, "coverage": cov, "tie_broken": broken or skeleton_drift()}


register("C10", run=run_c10, tie="crash images of real nodes (go/inpkg/sim_crash.go) + coq/Node/Cases.v (ERestart) vs storage.go, value.go, snapshots.go, rpc.go, fsm.go, log/*",
         assumptions=NODE_ASSUME + ["process-crash model: completed file operations survive, the unflushed log tail is lost"],
         trusted=NODE_TRUST + ["directory copies taken inside verifPoint hooks"],
         level_text="Theorems: restart keeps term and vote, keeps every flushed entry, resets a log left behind its snapshot, and re-establishes the "
                    "node invariant the other proofs assume (ERestart case of the C19 invariant); the log-level crash theorems of C14 cover the "
                    "segment files. Tie/search: every verifPoint of every storage-mutating handler is a crash point on real nodes.")


reg_node("C02", "Theorems: (abstract protocol, Props/C02.v when present) leader completeness and commit stability for every cluster size and "
         "interleaving; (node level, Props/C02_rules.v) a vote is newly cast only for an at-least-as-up-to-date log, a follower truncates only "
         "from the first conflicting index, holds every request entry as sent, the follower commit index moves only to covered current-term "
         "entries, a leader's log is append-only. Monitors: committed entries never differ between nodes, every leader holds all committed entries.",
         ["Abs/Raft.v (crash, flush, snapshots) has a static voter set; Abs/CfgRaft.v (Props/C08_abs.v) has membership changes in the log, durable prefix, crash/restart and snapshot installation"], extra_props=["C02_rules.v", "AbsTie.v", "C08_abs.v", "CfgTie.v", "AbsLink.v"])
reg_node("C03", "Theorems: (abstract protocol, Props/C03.v when present) committed prefixes of any two nodes are prefix-related; (node level) the "
         "state machine is fed the entries after its position up to the commit index contiguously, in order, once (apply_is_contiguous, "
         "queue_applied_in_order). Monitor: state-machine command lists of all nodes are pairwise prefix-related after every event.",
         ["deterministic FSM"], extra_props=["C02_rules.v", "C09.v", "AbsTie.v", "C08_abs.v", "CfgTie.v"])
reg_node("C04", "Theorems: (abstract protocol, Props/C04.v) log matching for any two logs of any reachable state and leader append-only; (node level) "
         "requests are faithful log slices with the right prevLogTerm, followers hold request entries exactly as sent, leaders never rewrite "
         "their log. Monitor: (index, term) -> (type, payload, predecessor term) stays a function over every log ever dumped.",
         [], extra_props=["C02_rules.v", "AbsTie.v", "CfgTie.v", "AbsLink.v"])
reg_node("C07", "Theorems (node level): non-leaders reject definitively and change nothing; a transferring/demoted leader rejects the whole batch; "
         "accepted updates are appended in batch order at the next indices with the leader's term; tasks are released only as a committed prefix "
         "of the queue (so a read/barrier reflects every update accepted before it); an update's reply is the state machine's result for the entry "
         "at its index; at the end of leadership every queued task gets the ambiguous answer. Cluster level (Props/C07_abs.v, over every run of the "
         "abstract protocol with membership changes, crashes, snapshots and truncated requests): an update submitted once occurs at most once in any "
         "node's log, at the same index and term in every log that holds it, and never if it was not submitted (cfg_client_entry_*); together with "
         "C02/C03 (it stays once committed; state machines agree) this gives exactly-once for completed and at-most-once for ambiguous updates.",
         ["batching by runBatch is a schedule choice (any batching is a list handed to storeEntry)"], extra_props=["C07_abs.v", "CfgTie.v"])
reg_node("C09", "Theorems (node level): apply is contiguous; a snapshot never exceeds the commit index; compaction removes only a prefix at or below "
         "the snapshot; on a leader it keeps the entry at every follower's match index and hands replications a view that starts inside the log; "
         "the request writer yields log entries or asks for a snapshot; installation resets log and state machine position together. PARTIAL: the "
         "instant at which a goroutine touches mapped memory is outside the model (scenario + live driver cover it). Cluster level: the abstract "
         "protocol includes snapshot installation (log replaced by a committed prefix or kept; compaction invisible) and its safety theorems "
         "hold with it; observed histories with snapshots are checked to be runs of it (Props/AbsTie.v).", [], extra_props=["AbsTie.v", "CfgTie.v"])
reg_node("C12", "Theorems: the snapshot task captures state-machine position and committed configuration at the same instant and publishes exactly "
         "that label, only if newer; the captured configuration is the one in force at the label's index (given the bookkeeping invariant); after "
         "restart the membership is the newest configuration entry above the snapshot, else the label; installation adopts the label.", [])
reg_node("C17", "Theorems: leader stickiness (full: a non-transfer vote request from another node leaves a follower that knows a leader exactly as "
         "it was); mechanisms of progress: time-out starts an election, an up-to-date candidate gets every allowed vote, a quorum of grants wins, "
         "rejections strictly lower nextIndex down to matchIndex+1, success raises the match index, a single voter commits alone, quorum loss steps "
         "down; on the abstract protocol (Props/C17_abs.v): from EVERY reachable state any majority of voters can elect one of its members "
         "and commit a new entry on all of them (explicit witness run); the same under membership changes, crashes and snapshots (Props/C17_cfg.v on "
         "Abs/CfgRaft.v): a voter of its own latest configuration whose log is at least as up to date as those of a majority of that configuration "
         "can be elected by it and commit a new client entry, from every reachable state. PARTIAL: real time / bounded number of election time-outs "
         "is outside the model.", [], extra_props=["C17_cfg.v"])


reg_node("C11", "Theorems: an election is started only by a voter of the node's own latest configuration (time-out aborts, timeout-now is refused "
         "otherwise); whatever the event, a node that becomes candidate or leader is a voter of its latest configuration (or of the configuration it "
         "held when elected, if as a single voter it demoted itself in the same step); non-voters' match indices never influence the commit point; "
         "promotion only after the current round completed (and was fast enough or nothing new arrived); a leader that is no voter of a "
         "configuration it commits steps down; shutdown-on-remove only after the removing configuration is committed. Cluster level (Props/C11_abs.v "
         "on Abs/CfgRaft.v, every reachable state): a leader was a voter of the latest configuration of its own log when elected and was elected by a "
         "majority of THAT configuration's voters (votes from outside never count), one vote per voter and term, a campaigning node is a voter of its "
         "latest configuration; commits count voters of the leader's configuration only (cfg_committed_durable_on_majority).",
         ["NoDup node ids in a configuration (Go map)"], extra_props=["C11_abs.v", "C08_abs.v", "CfgTie.v"])
reg_node("C16", "Theorems: timeout-now goes only to another voter that is reachable and holds the leader's whole log; while a transfer is in "
         "progress no entry is appended and every task of a batch is told so, and no configuration action starts; the transfer task is told success "
         "only when the leader is released having seen a higher term; every other ending reports an error and clears the transfer; impossible "
         "requests are refused unchanged; a node told to time out now campaigns with the transfer flag. Two leaders in one term: C01.",
         [])

reg_node("C19", "Theorems (single node, every history of requests, time-outs, tasks, snapshots, leader events and restarts in which the environment "
         "behaves as stated in InfoInvDefs.env_ok): lastApplied <= commit <= lastLog, firstLog-1 <= snapshot <= lastLog, committed configuration "
         "not newer than the latest, the latest configuration is the newest configuration entry of log-or-snapshot - as an inductive invariant "
         "preserved by every event kind - and term, commit index, lastApplied and snapshot index never decrease within one incarnation. "
         "Monitor: the same ordering on every real node after every simulated event.",
         ["the environment clauses of InfoInvDefs.env_ok: requests carry consecutive entries and do not contradict an index the receiver knows "
          "committed (a consequence of C02), a snapshot offered does not contradict such an index and carries the configuration in force at its "
          "index, replications acknowledge only indices of the leader's log, no snapshot is requested in the window where the committed "
          "configuration is ahead of the applied index"])


# ------------------------------------------------------------------ C15

def run_c15(pid, tier, seed):
    """Node-model runs (panic monitor, ledger events) + the live driver: real Serve, goroutines and timers."""
    r = run_node(pid, tier, seed)
    wd = vlib.workdir(pid + "_live")
    secs = 12 if tier == "quick" else 180
    rc, out = vlib.vh(["raft", "live", seed, secs, wd], timeout=secs + 600)
    viols = r.get("violations", [])
    cov = r.get("coverage", {})
    if rc != 0:
        viols.append({"signature": "live-died", "detail": out[-1500:], "found": True,
                      "replay": {"property": pid, "kind": "live cluster process died (panic, fatal error or deadlock)", "seed": seed, "seconds": secs,
                                 "output_tail": out[-4000:], "cmd": "vh raft live %s %s <dir>" % (seed, secs)}})
    else:
        meta = json.load(open(os.path.join(wd, "live_meta.json")))
        for fnd in meta.get("findings") or []:
            prop, sig, detail = (fnd.split("|", 3) + ["", "", ""])[:3]
            viols.append({"signature": "live " + sig, "detail": detail, "found": True,
                          "replay": {"property": pid, "kind": "monitor on a live cluster", "monitor": sig, "what": detail, "seed": seed, "seconds": secs}})
        cov["live_seconds"] = meta.get("seconds")
        cov["live_tasks_completed"] = meta.get("tasks")
        cov["live_fsm_lengths"] = meta.get("fsm_lengths")
        cov["rule"] = cov.get("rule", "") + ("; live driver: %s s of a real 3-5 node cluster (Serve, goroutines, timers, in-memory network; concurrent clients, "
                                             "snapshots, membership changes, transfers, partitions, restarts): no panic, every task completes, Shutdown returns, "
                                             "state machines prefix-related" % secs)
    r["violations"], r["coverage"] = viols, cov
    return r


register("C15", run=run_c15, extra_props=(), tie="coq/Node/Cases.v (every event: reply multiset, panics) vs the handlers; live cluster driver go/inpkg/live.go",
         assumptions=NODE_ASSUME + ["no storage or state-machine I/O errors (the property's own premise)"], trusted=NODE_TRUST + ["live driver monitors"],
         level_text="Theorems (node level, every state and event): the task ledger - tasks pending before an event plus those it submits are, as a multiset, "
                    "the tasks pending after it plus those it answered, so over any history no task is answered twice and none is dropped; the end of "
                    "leadership and shutdown answer everything pending (ServerClosed on shutdown). PARTIAL by nature: data races, concurrent map access, "
                    "deadlocks and goroutine leaks live in the Go runtime and are outside any executable model; the panic monitor of the simulator and "
                    "the live driver exercise them (supporting search, not proof).")
