"""Shared machinery of the checks: building the Coq development and the Go
harness from /repo's current working tree, evaluating correspondence case
files with coqc, reading proof obligations, evidence and known findings."""
import concurrent.futures as cf
import glob
import hashlib
import json
import os
import re
import shutil
import subprocess
import sys
import time

ROOT = os.path.dirname(os.path.dirname(os.path.abspath(__file__)))
REPO = os.environ.get("VERIF_REPO", "/repo")
COQ = os.path.join(ROOT, "coq")
WORK = os.path.join(ROOT, ".work")
GOENV = dict(os.environ, GOFLAGS="-mod=mod", GOPROXY="off", GOSUMDB="off", GOTOOLCHAIN="local",
             CGO_ENABLED="0")

TRUSTED_BASE = [
    "Coq 8.16.1 kernel (coqc); vm_compute used to evaluate the models on correspondence cases and for "
    "Example/refutation witnesses; native_compute not used",
    "no axioms: every theorem in coq/Props prints 'Closed under the global context' (checked on every run)",
    "correspondence harness: go/inpkg, go/inlog (Go, overlaid onto /repo with go build -overlay, tag verif), "
    "tools/*.py, the Gallina literal printers and the boolean equalities in coq/*/Cases.v",
    "Go toolchain go1.23.5, the OS file system and mmap semantics",
]


def sh(cmd, cwd=None, timeout=600, env=None, inp=None):
    """Run a shell command; returns (rc, output)."""
    try:
        p = subprocess.run(cmd, shell=isinstance(cmd, str), cwd=cwd, env=env, input=inp,
                           stdout=subprocess.PIPE, stderr=subprocess.STDOUT, timeout=timeout, text=True)
        return p.returncode, p.stdout
    except subprocess.TimeoutExpired as e:
        out = e.stdout.decode() if isinstance(e.stdout, bytes) else (e.stdout or "")
        return 124, out + "\n[timeout after %ss]" % timeout


def workdir(name):
    d = os.path.join(WORK, name)
    shutil.rmtree(d, ignore_errors=True)
    os.makedirs(d, exist_ok=True)
    return d


# ------------------------------------------------------------------ coq

class lock:
    """Inter-process lock (checks may be started concurrently)."""

    def __init__(self, name):
        os.makedirs(WORK, exist_ok=True)
        self.path = os.path.join(WORK, name + ".lock")

    def __enter__(self):
        import fcntl
        self.f = open(self.path, "w")
        fcntl.flock(self.f, fcntl.LOCK_EX)
        return self

    def __exit__(self, *a):
        import fcntl
        fcntl.flock(self.f, fcntl.LOCK_UN)
        self.f.close()


def build_coq(timeout=3000):
    """Full .vo build of the development (incremental; never -vos)."""
    with lock("coq"):
        return _build_coq(timeout)


def _build_coq(timeout):
    if not os.path.exists(os.path.join(COQ, "Makefile")):
        rc, out = sh("coq_makefile -f _CoqProject -o Makefile", cwd=COQ, timeout=120)
        if rc != 0:
            return False, out
    rc, out = sh("make -j16", cwd=COQ, timeout=timeout)
    return rc == 0, out


GATE_RE = re.compile(r"\b(Admitted|admit|Axiom|Axioms|Parameter|Parameters|Conjecture|Abort All|"
                     r"Unset\s+Guard|Unset\s+Positivity|Unset\s+Universe|bypass_check|type-in-type|Admit\s+Obligations)\b")


def strip_comments(src):
    out, depth, i = [], 0, 0
    while i < len(src):
        if src.startswith("(*", i):
            depth += 1
            i += 2
        elif src.startswith("*)", i) and depth > 0:
            depth -= 1
            i += 2
        else:
            if depth == 0:
                out.append(src[i])
            i += 1
    return "".join(out)


def grep_gate():
    """No Admitted/admit/Axiom/... anywhere in the development (comments ignored)."""
    bad = []
    listed = [l.strip() for l in open(os.path.join(COQ, "_CoqProject")) if l.strip().endswith(".v")]
    for f in sorted(os.path.join(COQ, l) for l in listed):
        if not os.path.exists(f):
            bad.append("%s listed in _CoqProject but missing" % f)
            continue
        txt = strip_comments(open(f).read())
        for ln, line in enumerate(txt.split("\n"), 1):
            if GATE_RE.search(line):
                bad.append("%s:%d: %s" % (os.path.relpath(f, ROOT), ln, line.strip()[:120]))
        # Variable/Hypothesis outside a section
        depth = 0
        for ln, line in enumerate(txt.split("\n"), 1):
            s = line.strip()
            if re.match(r"Section\s+\w+", s):
                depth += 1
            elif re.match(r"End\s+\w+", s) and depth > 0:
                depth -= 1
            elif depth == 0 and re.match(r"(Variable|Variables|Hypothesis|Hypotheses|Context)\b", s):
                bad.append("%s:%d: %s outside a section" % (os.path.relpath(f, ROOT), ln, s[:80]))
    return bad


def coq_deps(vfile):
    """Transitive .v dependencies of a file inside the development (by coqdep)."""
    rc, out = sh("coqdep -R . Verif -sort %s" % vfile, cwd=COQ, timeout=60)
    return out.split() if rc == 0 else []


def props_obligations(pid, extra=()):
    """Re-compile Props/<pid>.v and read what it proves.  Returns dict with
    obligations (Theorems stated), discharged (those whose Print Assumptions is
    closed), names, axioms seen, log."""
    files = sorted(set(glob.glob(os.path.join(COQ, "Props", pid + ".v")) + glob.glob(os.path.join(COQ, "Props", pid + "_*.v")) +
                       [os.path.join(COQ, "Props", e) for e in extra if os.path.exists(os.path.join(COQ, "Props", e))]))
    if not files:
        return {"file": "coq/Props/%s.v" % pid, "names": [], "obligations": 0, "discharged": 0, "axioms": [], "ok": False,
                "log": "missing Props/%s.v" % pid, "missing_print": []}
    tot = {"file": ", ".join("coq/Props/" + os.path.basename(f) for f in files), "names": [], "obligations": 0, "discharged": 0,
           "axioms": [], "ok": True, "log": "", "missing_print": []}
    for f in files:
        r = _props_file("Props/" + os.path.basename(f), pid)
        tot["names"] += r["names"]
        tot["obligations"] += r["obligations"]
        tot["discharged"] += r["discharged"]
        tot["axioms"] += r["axioms"]
        tot["ok"] = tot["ok"] and r["ok"]
        tot["log"] += r["log"] if not r["ok"] else ""
        tot["missing_print"] += r["missing_print"]
    return tot


def _props_file(v, pid):
    src = strip_comments(open(os.path.join(COQ, v)).read())
    names = re.findall(r"^\s*(?:Theorem|Corollary)\s+(\w+)", src, re.M)
    printed = re.findall(r"Print Assumptions\s+(\w+)", src)
    tmp = workdir("props_" + pid + "_" + os.path.basename(v))
    rc, out = sh("coqc -R . Verif -o %s %s" % (os.path.join(tmp, os.path.basename(v) + "o"), v), cwd=COQ, timeout=900)
    res = {"file": "coq/" + v, "names": names, "obligations": len(names), "discharged": 0, "axioms": [],
           "ok": rc == 0, "log": out[-4000:], "missing_print": [n for n in names if n not in printed]}
    if rc != 0:
        return res
    closed = out.count("Closed under the global context")
    axioms = re.findall(r"^Axioms:\n((?:.+\n)+)", out, re.M)
    res["axioms"] = axioms
    res["discharged"] = min(closed, len(names)) if not res["missing_print"] else min(closed, len(printed))
    return res


def coqchk(timeout=3000):
    """Independent re-check of every compiled Props module (and everything it depends on) with coqchk; returns
    (ok, axioms_text, log).  Used in the thorough tier; the report is kept in evidence/coqchk.txt."""
    mods = []
    for l in open(os.path.join(COQ, "_CoqProject")):
        l = l.strip()
        if l.startswith("Props/") and l.endswith(".v"):
            mods.append("Verif.Props." + os.path.basename(l)[:-2])
    with lock("coq"):
        rc, out = sh("coqchk -silent -o -R . Verif " + " ".join(mods), cwd=COQ, timeout=timeout)
    m = re.search(r"\* Axioms:\s*(.*?)\n\s*\n", out, re.S)
    axioms = m.group(1).strip() if m else "?"
    try:
        os.makedirs(os.path.join(ROOT, "evidence"), exist_ok=True)
        open(os.path.join(ROOT, "evidence", "coqchk.txt"), "w").write(
            "coqchk -silent -o -R . Verif %s\n(exit %s)\n%s\n" % (" ".join(mods), rc, out[-6000:]))
    except OSError:
        pass
    return rc == 0 and axioms == "<none>", axioms, out[-3000:]


def run_case_file(path):
    """Evaluate one generated cases_*.v; returns (ok, list_of_mismatching_ids, log)."""
    d = os.path.dirname(path)
    # large list literals (byte strings of tens of KB) need more than the default 8 MB stack in coqc's parser
    rc, out = sh("ulimit -s unlimited 2>/dev/null || ulimit -s $(ulimit -Hs) 2>/dev/null; coqc -R %s Verif -Q . Cases %s" % (COQ, os.path.basename(path)),
                 cwd=d, timeout=1800)
    if rc != 0:
        return False, [], out[-3000:]
    m = re.search(r"M\s*=\s*(\[.*?\])\s*:\s*list", out, re.S)
    if not m:
        return False, [], out[-3000:]
    body = m.group(1).strip()[1:-1].strip()
    ids = [int(x.strip().replace("%N", "")) for x in body.split(";") if x.strip()] if body else []
    return True, ids, ""


def run_case_files(paths, jobs=16):
    results = {}
    with cf.ThreadPoolExecutor(max_workers=jobs) as ex:
        for p, r in zip(paths, ex.map(run_case_file, paths)):
            results[p] = r
    return results


# ------------------------------------------------------------------ go harness

def overlay_map():
    rep = {}
    for sub, dst in (("inpkg", REPO), ("inlog", os.path.join(REPO, "log"))):
        for f in sorted(glob.glob(os.path.join(ROOT, "go", sub, "*.go"))):
            rep[os.path.join(dst, "zz_verif_" + os.path.basename(f))] = f
    return rep


def build_harness():
    """go build of the harness against /repo's working tree (tag verif, hooks on).
    The in-package harness files are injected with -overlay: nothing is written to /repo."""
    with lock("go"):
        return _build_harness()


def _build_harness():
    os.makedirs(os.path.join(WORK, "bin"), exist_ok=True)
    ov = os.path.join(WORK, "overlay.json")
    json.dump({"Replace": overlay_map()}, open(ov, "w"))
    shutil.copyfile(os.path.join(REPO, "go.sum"), os.path.join(ROOT, "go", "go.sum"))
    modfile = ""
    if REPO != "/repo":
        # development aid (seeded changes in a scratch worktree): same module file with the replace directive pointing at VERIF_REPO
        mf = os.path.join(WORK, "alt.mod")
        open(mf, "w").write(open(os.path.join(ROOT, "go", "go.mod")).read().replace("=> /repo", "=> " + REPO))
        shutil.copyfile(os.path.join(REPO, "go.sum"), os.path.join(WORK, "alt.sum"))
        modfile = "-modfile=%s " % mf
    cmd = "go build %s-tags verif -overlay %s -o %s ./cmd/vh" % (modfile, ov, os.path.join(WORK, "bin", "vh"))
    rc, out = sh(cmd, cwd=os.path.join(ROOT, "go"), env=GOENV, timeout=900)
    return rc == 0, out


def vh(args, timeout=1200, cwd=None):
    return sh([os.path.join(WORK, "bin", "vh")] + [str(a) for a in args], timeout=timeout, cwd=cwd, env=GOENV)


def repo_fingerprint(files):
    h = hashlib.sha256()
    for f in files:
        p = os.path.join(REPO, f)
        if os.path.exists(p):
            h.update(open(p, "rb").read())
    return h.hexdigest()[:16]


# ------------------------------------------------------------------ findings / evidence

def known_findings():
    p = os.path.join(ROOT, "known_findings.json")
    if not os.path.exists(p):
        return []
    return json.load(open(p)).get("findings", [])


def match_known(pid, signature):
    """A violation is known iff a status=known entry for pid has a 'match' regex matching the signature."""
    for f in known_findings():
        if f.get("property") == pid and f.get("status") == "known" and re.search(f["match"], signature):
            return f
    return None


def write_replay(pid, name, obj):
    d = os.path.join(ROOT, "replays")
    os.makedirs(d, exist_ok=True)
    p = os.path.join(d, "%s_%s.json" % (pid, name))
    json.dump(obj, open(p, "w"), indent=1)
    return p


def write_evidence(pid, tier, seed, coverage, assumptions, wall, violations, level="proof"):
    os.makedirs(os.path.join(ROOT, "evidence"), exist_ok=True)
    ev = {"property_id": pid, "tier": tier, "seed": seed, "level": level, "coverage": coverage,
          "assumptions": assumptions, "wall_s": round(wall, 2), "violations": violations}
    json.dump(ev, open(os.path.join(ROOT, "evidence", pid + ".json"), "w"), indent=1)
