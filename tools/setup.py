#!/usr/bin/env python3
"""MANIFEST.setup_cmd: build everything from files on disk (offline)."""
import os
import sys

sys.path.insert(0, os.path.dirname(os.path.abspath(__file__)))
import vlib

bad = vlib.grep_gate()
if bad:
    print("forbidden constructs:\n" + "\n".join(bad))
    sys.exit(1)
rc, out = vlib.sh("coq_makefile -f _CoqProject -o Makefile", cwd=vlib.COQ, timeout=120)
if rc != 0:
    print(out)
    sys.exit(1)
ok, out = vlib.build_coq()
print(out[-3000:])
if not ok:
    sys.exit(1)
ok, out = vlib.build_harness()
print(out[-3000:])
sys.exit(0 if ok else 1)
