#!/usr/bin/env python3
"""dbgcase.py <cases_file.v> <id> [expr]: evaluate the model on one case and print a projection.
expr is a Gallina function of (post : nstate), default st_ldr."""
import re, subprocess, sys, os
f, cid = sys.argv[1], sys.argv[2]
expr = sys.argv[3] if len(sys.argv) > 3 else "st_ldr"
src = open(f).read()
hdr = src[:src.index("Definition cases")]
m = re.search(r"^(NCase %s .*?)(;\n|\]\.\n)" % cid, src, re.M | re.S)
case = m.group(1)
out = hdr + """
Definition c := %s.
Definition proj (s : nstate) := (%s) s.
Definition R := Eval vm_compute in
  match c with NCase _ opt pre ev out =>
    (match model_event opt pre ev with Done (o, post) => Some (o, proj post) | Err _ => None end,
     match out with GOk o post => Some (o, proj post) | GPanic => None end) end.
Print R.
""" % (case, expr)
p = os.path.join(os.path.dirname(f), "dbg_%s.v" % cid)
open(p, "w").write(out)
r = subprocess.run(["coqc", "-R", os.environ.get("VERIF_COQ","/verif/coq"), "Verif", os.path.basename(p)], cwd=os.path.dirname(p), capture_output=True, text=True)
print(r.stdout[-6000:], r.stderr[-2000:])
