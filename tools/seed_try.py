#!/usr/bin/env python3
"""seed_try.py <PID> <agent-worktree> <name> [more PIDs...]

Confirm a seeded change produced by an independent sub-agent (in <agent-worktree>/SEED) and run our checks against it
WITHOUT touching /repo: a scratch worktree of /repo's HEAD gets the patch, a scratch copy of /verif runs
`VERIF_REPO=<scratch worktree> ./check <PID>` (vlib builds the harness against VERIF_REPO).  Confirms: patch applies to HEAD;
demo passes without and fails with the change; the existing suite passes with it.  Stores /verif/seeded/<name>/."""
import json
import os
import shutil
import subprocess
import sys

pid, wt, name = sys.argv[1:4]
pids = [pid] + sys.argv[4:]
ENV = dict(os.environ, GOFLAGS="-mod=mod", GOPROXY="off", GOSUMDB="off", GOTOOLCHAIN="local")


def sh(cmd, cwd, timeout=3000, env=ENV):
    p = subprocess.run(cmd, shell=True, cwd=cwd, env=env, stdout=subprocess.PIPE, stderr=subprocess.STDOUT, text=True, timeout=timeout)
    return p.returncode, p.stdout


dst = os.path.join("/verif/seeded", name)
os.makedirs(dst, exist_ok=True)
meta = json.load(open(os.path.join(wt, "SEED", "meta.json")))
pkg = meta.get("demo_pkg", ".")
for fn in ("patch.diff", "zz_seed_demo_test.go"):
    try:
        shutil.copy(os.path.join(wt, "SEED", fn), dst)
    except shutil.SameFileError:
        pass  # re-check of a stored seed: <wt>/SEED is /verif/seeded/<name> itself
ran = []
scratch = "/tmp/sw_" + name
vcopy = "/tmp/vs_" + name
sh("git -C /repo worktree remove --force %s" % scratch, "/")
shutil.rmtree(vcopy, ignore_errors=True)
rc, out = sh("git -C /repo worktree add --detach %s HEAD" % scratch, "/")
assert rc == 0, out
# scratch copy of /verif, taken now (later edits to /verif do not disturb this run)
rc, out = sh("rsync -a --exclude .git --exclude replays --exclude '.work/C*' --exclude '.work/abs*' --exclude '.work/sc*' /verif/ %s/" % vcopy, "/")
assert rc == 0, out
reports = {}
try:
    demo_dir = os.path.join(scratch, pkg)
    shutil.copy(os.path.join(dst, "zz_seed_demo_test.go"), demo_dir)
    rc0, out0 = sh("go test -vet=off -count=1 -run 'TestSeedDemo$' .", demo_dir)
    ran.append({"cmd": "demo on unchanged tree", "rc": rc0, "tail": out0[-300:]})
    rc, out = sh("git apply %s" % os.path.join(dst, "patch.diff"), scratch)
    assert rc == 0, out
    rc1, out1 = sh("go build ./... && go test -vet=off -count=1 -run 'TestSeedDemo$' .", demo_dir)
    ran.append({"cmd": "demo with the change", "rc": rc1, "tail": out1[-600:]})
    os.remove(os.path.join(demo_dir, "zz_seed_demo_test.go"))
    rc2, out2 = sh("go test -vet=off -count=1 -timeout 25m ./...", scratch, timeout=2400)
    ran.append({"cmd": "existing suite with the change", "rc": rc2, "tail": out2[-400:]})
    # our checks, from a scratch copy of /verif, against the patched scratch worktree
    env = dict(ENV, VERIF_REPO=scratch)
    for p in pids:
        rc3, out3 = sh("./check %s" % p, vcopy, timeout=3000, env=env)
        lines = [l for l in out3.split("\n") if l.startswith("VIOLATION") or l.startswith("KNOWN") or l.startswith("  ") or "quick:" in l][:14]
        reports[p] = {"rc": rc3, "report": lines}
        ran.append({"cmd": "VERIF_REPO=<HEAD + patch> ./check %s (scratch copy of /verif)" % p, "rc": rc3, "report": lines})
finally:
    sh("git -C /repo worktree remove --force %s" % scratch, "/")
    shutil.rmtree(vcopy, ignore_errors=True)
meta.update({"property": pid, "confirmed": {"demo_passes_without": rc0 == 0, "demo_fails_with": rc1 != 0, "suite_passes_with": rc2 == 0,
             "check_detects": reports.get(pid, {}).get("rc") == 1,
             "checks_detecting": sorted(p for p, r in reports.items() if r["rc"] == 1)}, "what_i_ran": ran})
json.dump(meta, open(os.path.join(dst, "meta.json"), "w"), indent=1)
print(name, meta["confirmed"])
for p, r in reports.items():
    print(" ", p, r["rc"], " | ".join(r["report"][:3])[:400])
