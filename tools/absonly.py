#!/usr/bin/env python3
"""absonly.py [seed] [tier]: run only the abstract-tie part (development aid)."""
import sys, os, json
sys.path.insert(0, os.path.dirname(os.path.abspath(__file__)))
import vlib, props
seed = int(sys.argv[1]) if len(sys.argv) > 1 else 1
tier = sys.argv[2] if len(sys.argv) > 2 else "quick"
ok, out = vlib.build_harness()
if not ok:
    print(out[-2000:]); sys.exit(2)
v, b, cov = props.run_abs("C02", tier, seed, vlib.workdir("absonly"))
print("broken:", b)
print({k: cov[k] for k in cov if k != "abs_samples"})
for x in v[:8]:
    print(x["signature"], "|", x["detail"][:500])
