#!/usr/bin/env python3
"""seed_store.py <PID> <worktree> <name>: confirm a seeded change (produced by an independent sub-agent in its own
worktree) and store it under /verif/seeded/<name>/.  Confirms: patch applies to /repo HEAD; demo test fails with it and
passes without it; existing suite passes with it; then runs ./check <PID> on /repo with the patch applied and records
what it reported.  /repo is restored afterwards."""
import json, os, shutil, subprocess, sys
pid, wt, name = sys.argv[1:4]
ENV = dict(os.environ, GOFLAGS="-mod=mod", GOPROXY="off", GOSUMDB="off", GOTOOLCHAIN="local")
def sh(cmd, cwd, timeout=1800):
    p = subprocess.run(cmd, shell=True, cwd=cwd, env=ENV, stdout=subprocess.PIPE, stderr=subprocess.STDOUT, text=True, timeout=timeout)
    return p.returncode, p.stdout
dst = os.path.join("/verif/seeded", name)
os.makedirs(dst, exist_ok=True)
meta = json.load(open(os.path.join(wt, "SEED", "meta.json")))
pkg = meta.get("demo_pkg", ".")
shutil.copy(os.path.join(wt, "SEED", "patch.diff"), dst)
shutil.copy(os.path.join(wt, "SEED", "zz_seed_demo_test.go"), dst)
ran = []
# scratch worktree of /repo HEAD
scratch = "/tmp/seedverify_" + name
sh("git -C /repo worktree remove --force %s" % scratch, "/")
rc, out = sh("git -C /repo worktree add --detach %s HEAD" % scratch, "/"); assert rc == 0, out
try:
    demo_dir = os.path.join(scratch, pkg)
    shutil.copy(os.path.join(dst, "zz_seed_demo_test.go"), demo_dir)
    rc0, out0 = sh("go test -vet=off -count=1 -run 'TestSeedDemo$' %s" % ("." ), demo_dir)
    ran.append({"cmd": "demo on unchanged tree", "rc": rc0, "tail": out0[-300:]})
    rc, out = sh("git apply %s" % os.path.join(dst, "patch.diff"), scratch); assert rc == 0, out
    rc1, out1 = sh("go build ./... && go test -vet=off -count=1 -run 'TestSeedDemo$' .", demo_dir)
    ran.append({"cmd": "demo with the change", "rc": rc1, "tail": out1[-600:]})
    os.remove(os.path.join(demo_dir, "zz_seed_demo_test.go"))
    rc2, out2 = sh("go test -vet=off -count=1 -timeout 25m ./...", scratch, timeout=2400)
    ran.append({"cmd": "existing suite with the change", "rc": rc2, "tail": out2[-400:]})
finally:
    sh("git -C /repo worktree remove --force %s" % scratch, "/")
# our check against /repo with the change applied
rc, out = sh("git -C /repo status --porcelain", "/"); assert out.strip() == "", "repo not clean: " + out
rc, out = sh("git -C /repo apply %s" % os.path.join(dst, "patch.diff"), "/"); assert rc == 0, out
try:
    rc3, out3 = sh("./check %s" % pid, "/verif", timeout=3000)
finally:
    sh("git -C /repo checkout -- .", "/")
lines = [l for l in out3.split("\n") if l.startswith("VIOLATION") or l.startswith("  ") or "quick:" in l][:12]
ran.append({"cmd": "./check %s with the change applied to /repo" % pid, "rc": rc3, "report": lines})
meta.update({"property": pid, "confirmed": {"demo_passes_without": rc0 == 0, "demo_fails_with": rc1 != 0, "suite_passes_with": rc2 == 0,
             "check_detects": rc3 == 1}, "what_i_ran": ran})
json.dump(meta, open(os.path.join(dst, "meta.json"), "w"), indent=1)
print(name, meta["confirmed"])
