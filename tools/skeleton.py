#!/usr/bin/env python3
"""The simulator re-implements a few control-flow skeletons of /repo (which handler runs for which event of
stateLoop's select, the tail of Serve, the probe/pipeline phases of replicate, the dispatch of fsm.runLoop).  They are
modelled, not verified; this module detects DRIFT: the text of those functions (comments and blank space ignored) is
fingerprinted, and a check whose tie goes through the simulator reports a broken tie when a mirrored function changed.

  python3 tools/skeleton.py            compare with tools/skeleton.json, print differences
  python3 tools/skeleton.py --update   rewrite tools/skeleton.json from the current /repo (do this only after the
                                       harness was brought in line with the change)"""
import hashlib
import json
import os
import re
import sys

ROOT = os.path.dirname(os.path.dirname(os.path.abspath(__file__)))
REPO = os.environ.get("VERIF_REPO", "/repo")
STORE = os.path.join(ROOT, "tools", "skeleton.json")

# file -> functions (as they appear after "func ")
MIRRORED = {
    # stateLoop: the harness runs the body of each select case itself (sim.go, sim_cluster.go) and the role transition
    "raft.go": ["(r *Raft) stateLoop()", "(r *Raft) Serve("],
    # the replication goroutine: probe / pipeline / install-snapshot phases are re-implemented by the scheduler
    "replication.go": ["(r *replication) runLoop(", "(r *replication) replicate(", "(r *replication) sendInstallSnapReq("],
}


def strip(src):
    src = re.sub(r"/\*.*?\*/", "", src, flags=re.S)
    out = []
    for line in src.split("\n"):
        line = re.sub(r"//.*$", "", line).strip()
        if line and not line.startswith("verifPoint(") and not line.startswith("verifRoles("):
            out.append(re.sub(r"\s+", " ", line))
    return "\n".join(out)


def body(src, sig):
    i = src.find("func " + sig)
    if i < 0:
        return None
    j = src.index("{", i)
    depth, k = 0, j
    while k < len(src):
        c = src[k]
        if c == "{":
            depth += 1
        elif c == "}":
            depth -= 1
            if depth == 0:
                return src[i:k + 1]
        k += 1
    return None


def fingerprints():
    fp = {}
    for f, sigs in MIRRORED.items():
        p = os.path.join(REPO, f)
        src = open(p).read() if os.path.exists(p) else ""
        for sig in sigs:
            b = body(src, sig)
            fp[f + ": " + sig] = hashlib.sha256(strip(b).encode()).hexdigest()[:16] if b else "missing"
    return fp


def drift():
    """list of mirrored functions whose text differs from the recorded one"""
    if not os.path.exists(STORE):
        return ["tools/skeleton.json missing"]
    want = json.load(open(STORE))
    have = fingerprints()
    return sorted(k for k in set(want) | set(have) if want.get(k) != have.get(k))


if __name__ == "__main__":
    if "--update" in sys.argv:
        json.dump(fingerprints(), open(STORE, "w"), indent=1, sort_keys=True)
        print("wrote", STORE)
    else:
        d = drift()
        print("drift:" if d else "no drift", *d, sep="\n  ")
        sys.exit(1 if d else 0)
