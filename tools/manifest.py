#!/usr/bin/env python3
"""Regenerates MANIFEST.json from the registry (tools/props.py + tools/manifest_text.py)."""
import json
import os
import sys

sys.path.insert(0, os.path.dirname(os.path.abspath(__file__)))
import props
import manifest_text as mt

ROOT = os.path.dirname(os.path.dirname(os.path.abspath(__file__)))
checks = []
import glob
BUILT = set()
for pid in sorted(props.REGISTRY):
    files = glob.glob(os.path.join(ROOT, "coq", "Props", pid + ".v")) + glob.glob(os.path.join(ROOT, "coq", "Props", pid + "_*.v")) + \
        [os.path.join(ROOT, "coq", "Props", e) for e in props.REGISTRY[pid].get("extra_props", ())]
    proj = open(os.path.join(ROOT, "coq", "_CoqProject")).read()
    if any(("Props/" + os.path.basename(f)) in proj for f in files if os.path.exists(f)):
        BUILT.add(pid)
for pid in sorted(BUILT):
    t = mt.TEXT[pid]
    checks.append({
        "property_id": pid,
        "quick_cmd": "./check %s --tier quick" % pid,
        "thorough_cmd": "./check %s --tier thorough" % pid,
        "evidence_file": "/verif/evidence/%s.json" % pid,
        "replay_cmd_template": "./check %s --replay {path}" % pid,
        "engine": "coq-proof+correspondence",
        "level_claimed": {"category": "proof", "text": t["level"], "design_ref": t["design_ref"]},
        "level_note": t["note"],
        "technique": t["technique"],
    })
man = {
    "version": 1,
    "setup_cmd": "cd /verif && python3 tools/setup.py",
    "hooks": {
        "guard": "verif",
        "enable": "go build -tags verif -overlay /verif/.work/overlay.json (harness files of /verif/go/inpkg and /verif/go/inlog are "
                  "overlaid onto /repo's packages at build time; hook commits in /repo add only //go:build verif files and verifPoint calls)",
        "baseline_off_cmd": "cd /repo && GOFLAGS=-mod=mod GOPROXY=off GOSUMDB=off GOTOOLCHAIN=local go test -json -vet=off -count=1 -timeout 25m ./...",
        "source_commits": mt.HOOK_COMMITS,
        "add_only": True,
    },
    "engines": [{"name": "coq-proof+correspondence", "path": "/verif/check",
                 "serves_properties": sorted(BUILT),
                 "kind_free_text": "Coq 8.16 theorems about executable Gallina models (coq/), tied to /repo by differential execution "
                                   "of the real code against the model evaluated inside Coq (vm_compute) on generated cases"}],
    "checks": checks,
    "not_applicable": [{"property_id": p, "reason": r} for p, r in sorted(mt.NOT_APPLICABLE.items()) if p not in BUILT],
    "notes": mt.NOTES,
}
json.dump(man, open(os.path.join(ROOT, "MANIFEST.json"), "w"), indent=1)
print("wrote MANIFEST.json with", len(checks), "checks;", len(man["not_applicable"]), "not_applicable")
