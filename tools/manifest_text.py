"""Texts of MANIFEST.json, per property."""
HOOK_COMMITS = ["7fd8c4148b93d6fd3eeacd7bbf1d51535b0cb346", "cacdbfbc6d0539939e0348e9afd9daf483a6bfcb", "d0c7659d4902270bddd9919b879e34430e98a4dd"]
NOTES = ("Every check: (A) rebuilds the Coq development and re-reads Print Assumptions of coq/Props/<id>.v; (B) rebuilds the Go harness "
         "against /repo's working tree and compares the real code with the model on generated cases evaluated by coqc; (C) searches for a "
         "concrete failing input. A broken proof or correspondence without a concrete input is reported as VIOLATION ... no-failing-input-found.")
_PENDING = "check not built yet in this session (work in progress; see DESIGN.md section 5 for the plan)"
NOT_APPLICABLE = {("C%02d" % i): _PENDING for i in range(1, 21)}
NODE_NOTE = ("Trusted: Coq kernel + vm_compute; simulator (scheduler/network re-implementation, state dump), boolean equalities; "
             "Not in the model: real sockets/timers/goroutine interleavings, I/O errors.")
TEXT = {
 "C11": {
  "level": "Machine-checked proofs (Coq, no axioms) over the node model: only voters of their own latest configuration start elections or become "
           "leader (all event kinds, incl. timeout-now and bootstrap), non-voter acknowledgements do not enter the commit computation, promotion "
           "requires a completed round, self-demoted leaders step down at commit, removed nodes shut down only after the removal is committed. "
           "Tie: per-event differential execution on simulated clusters with membership changes (incl. slow promotion rounds) + monitor.",
  "design_ref": "DESIGN.md 5 (C11)", "note": NODE_NOTE,
  "technique": "Coq proofs of authority rules over all node events + differential correspondence",
 },
 "C16": {
  "level": "Machine-checked proofs (Coq, no axioms) of the transfer rules: eligible target only, no new entries or configuration actions during a "
           "transfer, success only with a higher term, failures clear the transfer, validation. The 'cluster can keep or elect a leader afterwards' "
           "clause is liveness (partial, see C17). Tie: per-event differential execution of transfer events, timeout-now delivery/loss, task replies.",
  "design_ref": "DESIGN.md 5 (C16)", "note": NODE_NOTE,
  "technique": "Coq proofs of transfer rules + differential correspondence incl. task replies",
 },

 "C10": {
  "level": "Machine-checked proofs (Coq, no axioms): restart keeps term and vote, keeps every flushed entry of a log that connects to its snapshot, "
           "resets a log left behind its snapshot or detached from it, and is contiguous with the snapshot from EVERY state - whatever a crash "
           "left, including the intermediate states of snapshot installation and of Log.Reset (both pre-repair restarts, D9 and D19, are refuted by "
           "witnesses) - and starts as a follower with the membership of log-or-snapshot; segment-file level crash consistency is C14. "
           "Tie and search: on real nodes the storage directory is copied at every verifPoint of every storage-mutating handler and every copy is "
           "restarted with the real New and judged. Known finding D10 (stale lock file) is reported as KNOWN-FINDING.",
  "design_ref": "DESIGN.md 5 (C10)", "note": NODE_NOTE + " Process-crash model: completed file operations survive, unflushed log tail lost.",
  "technique": "Coq proofs about restart incl. mid-handler crash states + exhaustive crash-point imaging of real nodes",
 },

 "C02": {
  "level": 'Machine-checked proofs (Coq, no axioms): node-level rules (up-to-date check for new votes, truncation only from the first conflict, follower holds request entries as sent, follower commit rule, leader append-only) and, on the abstract protocol (Props/C02.v when present), leader completeness and commit stability for every cluster size and interleaving with static voters. PARTIAL where stated: voter-set changes (C08) are outside the abstract protocol (snapshot installation and compaction are inside it). Tie: per-event differential execution + monitors (committed entry differs / leader misses committed entry). Cluster-level tie (Props/AbsTie.v): whole-cluster histories observed on real nodes (static membership; snapshots, compaction and snapshot installation included) are checked on every run by the executable, proved-sound checker Abs/Exec.v to be runs of the abstract protocol these theorems are about, so the theorems hold of the observed projections (observed_* theorems); histories with membership changes are covered by the node-level rules, correspondence and monitors only.',
  "design_ref": "DESIGN.md 5 (C02), Appendix E", "note": NODE_NOTE,
  "technique": 'Coq proofs (rules + abstract protocol invariant) + differential correspondence + monitors',
 }, "C03": {
  "level": 'Machine-checked proofs (Coq, no axioms): the state machine is fed exactly the entries after its position up to the commit index, contiguously and in order (follower path and leader queue path); on the abstract protocol (Props/C03.v when present) committed prefixes of any two nodes are prefix-related. Tie: per-event differential execution (fsm.index/term after every event) + monitor comparing the recorded command lists of all state machines after every event. Cluster-level tie (Props/AbsTie.v): whole-cluster histories observed on real nodes (static membership; snapshots, compaction and snapshot installation included) are checked on every run by the executable, proved-sound checker Abs/Exec.v to be runs of the abstract protocol these theorems are about, so the theorems hold of the observed projections (observed_* theorems); histories with membership changes are covered by the node-level rules, correspondence and monitors only.',
  "design_ref": "DESIGN.md 5 (C03)", "note": NODE_NOTE,
  "technique": 'Coq proofs + differential correspondence + state-machine prefix monitor',
 }, "C04": {
  "level": 'Machine-checked proofs (Coq, no axioms): log matching on the abstract protocol for every reachable state of every cluster size (Props/C04.v), leader append-only; node-level: the request writer emits faithful log slices, followers hold request entries exactly as sent. Tie: per-event differential execution + ledger monitor over every log dumped. Cluster-level tie (Props/AbsTie.v): whole-cluster histories observed on real nodes (static membership; snapshots, compaction and snapshot installation included) are checked on every run by the executable, proved-sound checker Abs/Exec.v to be runs of the abstract protocol these theorems are about, so the theorems hold of the observed projections (observed_* theorems); histories with membership changes are covered by the node-level rules, correspondence and monitors only.',
  "design_ref": "DESIGN.md 5 (C04), Appendix E", "note": NODE_NOTE,
  "technique": 'Coq invariant proof on abstract protocol + node rules + differential correspondence + ledger monitor',
 }, "C07": {
  "level": 'Machine-checked proofs (Coq, no axioms) of the node-level client rules: definitive rejections change nothing, accepted updates get consecutive positions in batch order, release is a committed prefix of the queue, update replies are the FSM result at the assigned position, end of leadership answers every queued task ambiguously. PARTIAL: exactly-once/real-time order across leaders rests on C02/C03. Tie: per-event differential execution including every task reply. Cluster level (Props/C07_abs.v, every run of the abstract protocol Abs/CfgRaft.v with membership changes, crashes, snapshot installation and truncated requests): an update submitted once occurs at most once in any log, at one index and term across all logs, and never if not submitted; with C02/C03 (stays once committed, state machines agree) that is exactly-once for completed and at-most-once for ambiguously failed updates. Histories of the real nodes are checked by Abs/CfgExec.v to be runs of that protocol.',
  "design_ref": "DESIGN.md 5 (C07)", "note": NODE_NOTE,
  "technique": 'Coq proofs of queue/reply rules + Coq proof of at-most-once placement over runs of the abstract protocol + differential correspondence on task replies',
 }, "C09": {
  "level": "Machine-checked proofs (Coq, no axioms) of contiguous apply, snapshot <= commit, compaction only of a snapshotted prefix, retention of what replications still read, fresh views after compaction, entries-or-snapshot for lagging followers, consistent reset on installation. PARTIAL: memory-mapping lifetime under real concurrency is outside the model; the scenario corpus (compaction at a follower's match boundary, a follower that compacts and then leads, installation over a conflicting suffix) and the live driver exercise it. Cluster level: the abstract protocol (Abs/Raft.v) has a snapshot-installation step (the follower's log is replaced by a committed prefix, or kept when it already extends it; compaction is invisible) and leader completeness, state-machine safety, log matching and durability are proved with it; observed whole-cluster histories with snapshots are checked by the proved-sound Abs/Exec.v to be runs of it (Props/AbsTie.v).",
  "design_ref": "DESIGN.md 5 (C09)", "note": NODE_NOTE,
  "technique": 'Coq proofs of snapshot/compaction rules + differential correspondence + targeted schedules',
 }, "C12": {
  "level": 'Machine-checked proofs (Coq, no axioms): label = (fsm index, fsm term, committed configuration) captured at one instant, published unchanged and only if newer; membership after restart/installation derived from label and newest configuration entry. Tie: per-event differential execution with the snapshot goroutine held at a hook so that capture and publication are separate events.',
  "design_ref": "DESIGN.md 5 (C12)", "note": NODE_NOTE,
  "technique": 'Coq proofs of snapshot labelling + differential correspondence with controlled goroutine interleaving',
 }, "C17": {
  "level": "Machine-checked proofs (Coq, no axioms): leader stickiness in full; the progress mechanisms one by one (election start, vote for up-to-date candidate, win at quorum, nextIndex convergence, match advance, single-voter commit, step-down on quorum loss). On the abstract cluster protocol (Props/C17_abs.v, Abs/RaftLive.v): from every reachable state - whatever crashes, message loss, deposed leaders, snapshot installations came before - any majority of voters has a continuation in which one of them is elected in a fresh term and a new entry is committed durably on all of them (progress_possible: the protocol has no dead states). PARTIAL: 'within a bounded number of election time-outs' needs real time and fair scheduling, which no executable model expresses; the simulator's scenarios end in converged clusters.",
  "design_ref": "DESIGN.md 5 (C17)", "note": NODE_NOTE,
  "technique": 'Coq proofs of stickiness, progress mechanisms and progress-possibility on the abstract protocol + differential correspondence',
 },
 "C06": {
  "level": "Machine-checked proofs (Coq, no axioms) of the node-level rules that make an acknowledged entry durable on a majority of voters: "
           "soundness of the leader's majority computation over the voters of the latest configuration (self counted iff voter), the invariant that "
           "the cached voter count describes the latest configuration across all leader events, commit only beyond the term start and after "
           "flushing, follower flush-before-success and the follower commit rule; plus (when Props/C06.v is present) the cluster-level theorem on "
           "the abstract protocol that every committed entry is durably held by a majority. Tie: per-event differential execution; a monitor counts "
           "durable copies at every commit advance of the simulated cluster. Cluster-level tie (Props/AbsTie.v): whole-cluster histories observed on "
           "real nodes (static membership, snapshots included; projections include each node's flushed prefix) are checked on every run by the proved-sound "
           "checker Abs/Exec.v to be runs of the abstract protocol, so committed_durable_on_majority holds of what was observed.",
  "design_ref": "DESIGN.md 5 (C06)", "note": NODE_NOTE,
  "technique": "Coq proofs of commit/flush rules + leader-cache invariant; differential correspondence; durable-majority monitor",
 },
 "C08": {
  "level": "Machine-checked proofs (Coq, no axioms): adjacency of every derived configuration and intersection of adjacent majorities; complete "
           "validation of submitted configurations; actions only when the latest configuration and an own-term entry are committed and no transfer "
           "runs (pre-repair guard refuted); follower adoption of the newest configuration entry. Cluster level (Props/C08_abs.v, model Abs/CfgRaft.v: "
           "every node acts on the last configuration entry of its own log, committed or not; a leader appends a configuration only under exactly "
           "those guards; any interleaving, loss, duplication, reordering of messages): election safety, log matching, leader completeness and "
           "state-machine safety for every reachable state under membership changes, and a machine-checked counterexample for the variant without "
           "the own-term-commit guard. The abstract reconfiguration protocol also has the durable prefix, flushing and crash/restart losing the "
           "unflushed tail (commit <= flushed, committed entries survive any further steps) and snapshot installation over logical logs (as Abs/Raft.v "
           "has for a static voter set). It is tied to the code twice: through the node-level guard theorems plus the per-event correspondence, and by a history checker "
           "(Abs/CfgExec.v, proved sound, theorems in Props/CfgTie.v): on every run, membership-changing whole-cluster histories of the real nodes "
           "(random schedules and the whole scenario corpus; with membership changes, crashes and restarts, snapshots, compaction and installation) are translated into actions of Abs/CfgRaft.v and accepted only if "
           "every action is enabled and the abstract nodes agree with the observed terms, logs, durable prefixes, roles and commit indices - so election safety, log "
           "matching and state-machine safety are theorems about what was observed (cfg_observed_*).",
  "design_ref": "DESIGN.md 5 (C08)", "note": NODE_NOTE,
  "technique": "Coq inductive-invariant proof of Raft safety with single-voter membership changes (abstract protocol) + Coq proofs of the node-level reconfiguration rules + differential correspondence + targeted schedules",
 },
 "C20": {
  "level": "Machine-checked proof (Coq, no axioms) on a small model of the identity handshake (getConn/replyRPC/handleConn), the lock file and "
           "SetIdentity: for every history in which the adversary decides which listener answers behind each address, requests are processed only by "
           "the intended (cluster,node), dialers keep only verified connections, the lock is exclusive, a set identity is immutable. Tied to the "
           "code by driving the real connPool and server.handleConn over pipes for all identity pairs of a small domain plus random 64-bit ones, "
           "and by concurrent lockDir / SetIdentity runs on real directories. The pool's pairing of replies with requests is modelled too (Ident/Pool.v, "
           "pool_replies_paired: whatever the peer does - answer in time, after the deadline, never - a reply handed to a caller answers the request "
           "that call wrote, because a connection with a failed request is never pooled) and tied by scripted sequences through the real connPool.",
  "design_ref": "DESIGN.md 4.5, 5 (C20)",
  "note": "Trusted: Coq kernel, harness. Assumed: atomic link(2). Not modelled: a client that does not use the library's connection pool.",
  "technique": "Coq proof on handshake/lock state machines + differential execution of the real pool/server code",
 },
 "C14": {
  "level": "Machine-checked proof (Coq, no axioms) on a crash model of the segmented log in which every operation is the program-ordered list of "
           "file-system primitives it issues (create, size, store entry, store header, msync, unlink) and the disk is kept as page-cache image and "
           "last-flushed image: for every operation sequence, every crash point inside the next operation, both the process-kill and the power-loss "
           "model (header page old or new, arbitrary junk beyond the stable data) reopening succeeds with a contiguous chain, exposes only entries "
           "really appended at their index, keeps everything a completed commit covered unless the interrupted operation removes it, and never "
           "resurrects what a completed removal removed. Tied to the code by reopening real crash images taken at every verifPoint (plus page-mixed "
           "power-loss images) with the real Open and comparing with the model's recovery from the implementation's own disk state.",
  "design_ref": "DESIGN.md 4.2, 5 (C14)",
  "note": "Assumed (not provable): atomic durable create/size/unlink, msync durability, whole-page writes. Trusted: image construction, Coq kernel. "
          "The primitive order per operation is hand-modelled and validated by the images, not extracted from the source.",
  "technique": "Coq proof over primitive-level crash model (kill + power-loss) + differential recovery of real crash images",
 },
 "C05": {
  "level": "Machine-checked proof (Coq, no axioms) over the node model (one Gallina function per Go handler; every event kind incl. leader events, "
           "tasks, snapshots and restarts): granted reply => term and vote persisted; every step keeps the term monotone and a cast vote fixed within "
           "its term; over any history one candidate per term, terms never decrease, reported terms never decrease; the handler as it was before the "
           "repair is refuted by a witness. Tied to the code by per-event differential execution (single node under adversarial requests with all "
           "coordinates + simulated clusters). Cluster-level tie (Props/AbsTie.v): in every whole-cluster history accepted by the proved-sound checker "
           "Abs/Exec.v (crashes and restarts included) a node's observed term never decreases and a vote cast in a term stays "
           "(observed_term_vote_monotone). The order 'persist the self vote, then ask for votes' that the model's atomic election event assumes is observed on "
           "the real code: the simulator reads the candidate's durable term and vote at the instant each of its vote requests is written.",
  "design_ref": "DESIGN.md 5 (C05)",
  "note": NODE_NOTE,
  "technique": "Coq invariant proof over all node events + per-event differential correspondence with the real handlers",
 },
 "C01": {
  "level": "Machine-checked proof (Coq, no axioms) of election safety on an abstract vote layer for every cluster size and every interleaving "
           "(one elected node per term; every leader was elected by a majority of recorded votes; one vote per (term, voter)). The vote layer's steps "
           "are what the node model's handlers do to (term, votedFor, role, votes counted); the node model (one Gallina function per Go handler) is "
           "tied to the code on every run by per-event differential execution on a deterministic simulator driving real *Raft values, and a monitor "
           "looks for two leaders in one term on the implementation. The vote requests delivered in the simulator are the bytes the candidate's own "
           "goroutines wrote, and the reply a candidate reads is the reply to the request it wrote (pool_replies_paired, real connPool against a "
           "scripted peer). Under membership changes: cfg_election_safety (Props/C08_abs.v) and the membership-changing histories checked by Abs/CfgExec.v (see C08)."
           " Cluster-level tie (Props/AbsTie.v): whole-cluster histories observed on real nodes (static membership; snapshots, compaction and snapshot installation included) are checked on every run by the executable, proved-sound checker Abs/Exec.v to be runs of the abstract protocol these theorems are about, so the theorems hold of the observed projections (observed_* theorems); histories with membership changes are covered by the node-level rules, correspondence and monitors only.",
  "design_ref": "DESIGN.md 4.4, 5 (C01), Appendix C",
  "note": NODE_NOTE,
  "technique": "Coq inductive-invariant proof on abstract vote protocol + per-event differential correspondence of the node model with the real handlers + monitor",
 },
 "C13": {
  "level": "Machine-checked proof (Coq, no axioms) over an entry-level model of log.go/segment.go/util.go (one function per Go method, panics explicit): "
           "for every operation sequence from a fresh log, every entry size and segment size, the chain of segments stays well formed and every "
           "operation refines the abstract sequence (append appends or is refused unchanged; RemoveGTE truncates; RemoveLTE drops whole segments up to "
           "CanLTE and never beyond the index; Reset; reopen); Get/GetN/Prev/Last/Count/Contains agree with the sequence, GetN concatenates across "
           "segments, and a view's Get/GetN are unchanged by any later appends. The concurrent-reader clause is proved functionally (reads depend only "
           "on data no append changes); visibility under the Go memory model is outside any Gallina model and is named as such. Byte level (Props/C13_bytes.v, "
           "SegLog/Segment.v): the file layout of a segment (slots growing down from the end, header, data region) is modelled and proved: under the "
           "available() test append never lets data and offset table overlap and changes no earlier entry, get returns exactly the appended bytes "
           "(also across entries), removeGTE and reopening recover exactly the entries the header covers, and the entry-level arithmetic agrees with it; "
           "raw segment files of the real log are compared with the entries read from them on sampled steps.",
  "design_ref": "DESIGN.md 4.2, 5 (C13)",
  "note": "Trusted: Coq kernel + vm_compute; Go harness and state dump (the dump reads entries through the real offset table; the raw file is checked "
          "against them by b_matches_wf). Not modelled: I/O errors, mmap/munmap, goroutine interleaving.",
  "technique": "Coq refinement proofs (byte-level segment -> entry-level log -> abstract sequence) + per-step differential correspondence with the real log package",
 },
 "C18": {
  "level": "Machine-checked proof (Coq, no axioms) that for every value of every message/entry/Node/Config/snapshot label/Replication/Info "
           "and every task response the model decoder returns exactly the encoded value and leaves exactly the trailing bytes, that every "
           "proper prefix of an encoding is an error, that every decoder is prefix-closed on arbitrary input, and that the value-file name "
           "round-trips for all pairs of 64-bit values. The model is hand-written, one Gallina function per Go encode/decode method; it is "
           "tied to the code on every run by executing the real methods and the model on the same generated values, prefixes and malformed inputs.",
  "design_ref": "DESIGN.md 4.1, 5 (C18)",
  "note": "Trusted: Coq kernel + vm_compute; the Go harness and literal printers; boolean equality used for comparison; Go's map order is modelled "
          "as an arbitrary permutation. Not modelled: io.Reader error paths other than short reads; JSON marshalling.",
  "technique": "Coq proof over parser-combinator model + differential correspondence (coqc vm_compute) with real encode/decode",
 },
 "C15": {
  "level": "Machine-checked proofs (Coq, no axioms) of the task ledger of the node model for every state and event: tasks pending before an event "
           "plus the tasks it submits equal, as a multiset, the tasks pending after it plus the tasks it answered (so no task is answered twice or "
           "dropped over any history, proved as answered_at_most_once with witness histories; covers changeConfig tasks with membership actions as "
           "long as no single action leaves the leader the only voter - the immediate-commit path is excluded with a machine-checked reason); the "
           "end of leadership leaves nothing pending "
           "and shutdown answers ServerClosed. PARTIAL by nature: data races, concurrent map access, deadlock, goroutine leaks and shutdown latency "
           "live in the Go runtime; no executable Gallina model exhibits them. They are exercised (supporting search only) by the simulator's panic "
           "monitor on every event of every driver, the stall watchdog (a handler that never returns), the drift check on the mirrored control "
           "flow of stateLoop, and the live driver (real Serve, goroutines, timers: every task completes, Shutdown returns, "
           "no panic).",
  "design_ref": "DESIGN.md 5 (C15)", "note": NODE_NOTE,
  "technique": "Coq proof of the task ledger over all node events + differential correspondence on task replies + panic monitor + live cluster driver",
 },
 "C19": {
  "level": "Machine-checked proof (Coq, no axioms) of a single-node inductive invariant over the node model: for every history of events (requests with "
           "any coordinates incl. stale/duplicated/reordered ones, votes, time-outs, tasks, snapshot phases, all leader events, role transitions, "
           "restarts) the reported fields are ordered (lastApplied <= commit <= lastLog; firstLog-1 <= snapshot <= lastLog; committed config <= "
           "latest config; latest config = newest configuration entry of log-or-snapshot) and term, commit, lastApplied, snapshot index never "
           "decrease between two reports of one incarnation. The only assumptions are the environment clauses of InfoInvDefs.env_ok (requests do "
           "not contradict what the receiver knows committed - which C02 provides -, legal oracle values). Tie: per-event differential execution "
           "(every event kind, full post-state) + ordering monitor on every real node after every event.",
  "design_ref": "DESIGN.md 5 (C19)", "note": NODE_NOTE,
  "technique": "Coq inductive invariant over all node events + per-event differential correspondence + ordering monitor",
 },
}
