"""Texts of MANIFEST.json, per property."""
HOOK_COMMITS = []
NOTES = ("Every check: (A) rebuilds the Coq development and re-reads Print Assumptions of coq/Props/<id>.v; (B) rebuilds the Go harness "
         "against /repo's working tree and compares the real code with the model on generated cases evaluated by coqc; (C) searches for a "
         "concrete failing input. A broken proof or correspondence without a concrete input is reported as VIOLATION ... no-failing-input-found.")
_PENDING = "check not built yet in this session (work in progress; see DESIGN.md section 5 for the plan)"
NOT_APPLICABLE = {("C%02d" % i): _PENDING for i in range(1, 21)}
NODE_NOTE = ("Trusted: Coq kernel + vm_compute; simulator (scheduler/network re-implementation, state dump), boolean equalities; "
             "Not in the model: real sockets/timers/goroutine interleavings, I/O errors.")
TEXT = {
 "C06": {
  "level": "Machine-checked proofs (Coq, no axioms) of the node-level rules that make an acknowledged entry durable on a majority of voters: "
           "soundness of the leader's majority computation over the voters of the latest configuration (self counted iff voter), the invariant that "
           "the cached voter count describes the latest configuration across all leader events, commit only beyond the term start and after "
           "flushing, follower flush-before-success and the follower commit rule; plus (when Props/C06.v is present) the cluster-level theorem on "
           "the abstract protocol that every committed entry is durably held by a majority. Tie: per-event differential execution; a monitor counts "
           "durable copies at every commit advance of the simulated cluster.",
  "design_ref": "DESIGN.md 5 (C06)", "note": NODE_NOTE,
  "technique": "Coq proofs of commit/flush rules + leader-cache invariant; differential correspondence; durable-majority monitor",
 },
 "C08": {
  "level": "Machine-checked proofs (Coq, no axioms): adjacency of every derived configuration and intersection of adjacent majorities; complete "
           "validation of submitted configurations; actions only when the latest configuration and an own-term entry are committed and no transfer "
           "runs (pre-repair guard refuted); follower adoption of the newest configuration entry. PARTIAL for the last clause of the property: the "
           "derivation that configurations used by different leaders overlap (hence C01/C02 under reconfiguration) is not mechanised; the monitors "
           "for C01/C02 run under membership-changing schedules instead.",
  "design_ref": "DESIGN.md 5 (C08)", "note": NODE_NOTE,
  "technique": "Coq proofs of reconfiguration rules + differential correspondence + targeted schedules (pending actions across leader change)",
 },
 "C20": {
  "level": "Machine-checked proof (Coq, no axioms) on a small model of the identity handshake (getConn/replyRPC/handleConn), the lock file and "
           "SetIdentity: for every history in which the adversary decides which listener answers behind each address, requests are processed only by "
           "the intended (cluster,node), dialers keep only verified connections, the lock is exclusive, a set identity is immutable. Tied to the "
           "code by driving the real connPool and server.handleConn over pipes for all identity pairs of a small domain plus random 64-bit ones, "
           "and by concurrent lockDir / SetIdentity runs on real directories.",
  "design_ref": "DESIGN.md 4.5, 5 (C20)",
  "note": "Trusted: Coq kernel, harness. Assumed: atomic link(2). Not modelled: a client that does not use the library's connection pool.",
  "technique": "Coq proof on handshake/lock state machines + differential execution of the real pool/server code",
 },
 "C14": {
  "level": "Machine-checked proof (Coq, no axioms) on a crash model of the segmented log in which every operation is the program-ordered list of "
           "file-system primitives it issues (create, size, store entry, store header, msync, unlink) and the disk is kept as page-cache image and "
           "last-flushed image: for every operation sequence, every crash point inside the next operation, both the process-kill and the power-loss "
           "model (header page old or new, arbitrary junk beyond the stable data) reopening succeeds with a contiguous chain, exposes only entries "
           "really appended at their index, keeps everything a completed commit covered unless the interrupted operation removes it, and never "
           "resurrects what a completed removal removed. Tied to the code by reopening real crash images taken at every verifPoint (plus page-mixed "
           "power-loss images) with the real Open and comparing with the model's recovery from the implementation's own disk state.",
  "design_ref": "DESIGN.md 4.2, 5 (C14)",
  "note": "Assumed (not provable): atomic durable create/size/unlink, msync durability, whole-page writes. Trusted: image construction, Coq kernel. "
          "The primitive order per operation is hand-modelled and validated by the images, not extracted from the source.",
  "technique": "Coq proof over primitive-level crash model (kill + power-loss) + differential recovery of real crash images",
 },
 "C05": {
  "level": "Machine-checked proof (Coq, no axioms) over the node model (one Gallina function per Go handler; every event kind incl. leader events, "
           "tasks, snapshots and restarts): granted reply => term and vote persisted; every step keeps the term monotone and a cast vote fixed within "
           "its term; over any history one candidate per term, terms never decrease, reported terms never decrease; the handler as it was before the "
           "repair is refuted by a witness. Tied to the code by per-event differential execution (single node under adversarial requests with all "
           "coordinates + simulated clusters).",
  "design_ref": "DESIGN.md 5 (C05)",
  "note": NODE_NOTE,
  "technique": "Coq invariant proof over all node events + per-event differential correspondence with the real handlers",
 },
 "C01": {
  "level": "Machine-checked proof (Coq, no axioms) of election safety on an abstract vote layer for every cluster size and every interleaving "
           "(one elected node per term; every leader was elected by a majority of recorded votes; one vote per (term, voter)). The vote layer's steps "
           "are what the node model's handlers do to (term, votedFor, role, votes counted); the node model (one Gallina function per Go handler) is "
           "tied to the code on every run by per-event differential execution on a deterministic simulator driving real *Raft values, and a monitor "
           "looks for two leaders in one term on the implementation. PARTIAL where stated: the refinement from node model to vote layer is argued per "
           "handler lemma (C05 theorems), not yet mechanised as one simulation theorem; voter-set changes need the overlap hypothesis of C08.",
  "design_ref": "DESIGN.md 4.4, 5 (C01), Appendix C",
  "note": NODE_NOTE,
  "technique": "Coq inductive-invariant proof on abstract vote protocol + per-event differential correspondence of the node model with the real handlers + monitor",
 },
 "C13": {
  "level": "Machine-checked proof (Coq, no axioms) over an entry-level model of log.go/segment.go/util.go (one function per Go method, panics explicit): "
           "for every operation sequence from a fresh log, every entry size and segment size, the chain of segments stays well formed and every "
           "operation refines the abstract sequence (append appends or is refused unchanged; RemoveGTE truncates; RemoveLTE drops whole segments up to "
           "CanLTE and never beyond the index; Reset; reopen); Get/GetN/Prev/Last/Count/Contains agree with the sequence, GetN concatenates across "
           "segments, and a view's Get/GetN are unchanged by any later appends. The concurrent-reader clause is proved functionally (reads depend only "
           "on data no append changes); visibility under the Go memory model is outside any Gallina model and is named as such.",
  "design_ref": "DESIGN.md 4.2, 5 (C13)",
  "note": "Trusted: Coq kernel + vm_compute; Go harness and state dump; byte-level layout of a segment (offset table arithmetic) is covered by the state "
          "dump reading the real table, not by a theorem. Not modelled: I/O errors, mmap/munmap, goroutine interleaving.",
  "technique": "Coq refinement proof (entry-level model -> abstract sequence) + per-step differential correspondence with the real log package",
 },
 "C18": {
  "level": "Machine-checked proof (Coq, no axioms) that for every value of every message/entry/Node/Config/snapshot label/Replication/Info "
           "and every task response the model decoder returns exactly the encoded value and leaves exactly the trailing bytes, that every "
           "proper prefix of an encoding is an error, that every decoder is prefix-closed on arbitrary input, and that the value-file name "
           "round-trips for all pairs of 64-bit values. The model is hand-written, one Gallina function per Go encode/decode method; it is "
           "tied to the code on every run by executing the real methods and the model on the same generated values, prefixes and malformed inputs.",
  "design_ref": "DESIGN.md 4.1, 5 (C18)",
  "note": "Trusted: Coq kernel + vm_compute; the Go harness and literal printers; boolean equality used for comparison; Go's map order is modelled "
          "as an arbitrary permutation. Not modelled: io.Reader error paths other than short reads; JSON marshalling.",
  "technique": "Coq proof over parser-combinator model + differential correspondence (coqc vm_compute) with real encode/decode",
 },
}
