#!/usr/bin/env python3
"""Regenerate the seeds table of DESIGN.md from seeded/*/meta.json (between the table header and the paragraph that follows)."""
import glob, json, os, re
rows = []
for d in sorted(glob.glob("/verif/seeded/*")):
    mp = os.path.join(d, "meta.json")
    if not os.path.exists(mp):
        continue
    m = json.load(open(mp))
    c = m.get("confirmed", {})
    det = ", ".join(c.get("checks_detecting", [])) or "NOT DETECTED"
    first = ""
    for r in m.get("what_i_ran", []):
        rep = r.get("report") or []
        for l in rep:
            if l.startswith("  ") and r.get("rc") == 1:
                first = l.strip()[:100]
                break
        if first:
            break
    summ = re.sub(r"\s+", " ", m.get("summary", ""))[:240].replace("|", "/")
    rows.append("| %s | %s | %s — %s |" % (os.path.basename(d), summ, det, first.replace("|", "/")))
src = open("/verif/DESIGN.md").read()
head = "| seed | change | detected by |\n|------|--------|-------------|\n"
i = src.index(head) + len(head)
j = src.index("\n\n", i)
open("/verif/DESIGN.md", "w").write(src[:i] + "\n".join(rows) + src[j:])
print(len(rows), "seeds")
